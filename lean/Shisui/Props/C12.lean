import Shisui.LightClient
import Shisui.LightClientSeq
/-! # C12 — The light client only advances on verified, sufficiently signed updates

Model (`Shisui/LightClient.lean`, `Shisui/LightClientSeq.lean`, namespace `Lc`): `Lc.verify` = `VerifyGenericUpdate`
(`beacon/light_client.go:291-353`), `Lc.apply` = `ApplyGenericUpdate` (382-443) in its four stages, `Lc.bootstrap` =
`bootstrap()` (230-273), `Lc.process`/`Lc.run` = the verify-then-apply rounds of `Sync`/`Advance`, `Lc.Reach` = any
sequence of applied updates. Headers are slots, committees opaque identities; `finProofOk`, `nextProofOk`,
`committeeProofOk` are the outcomes of the three Merkle branch checks (`Lc.finalityBranchOk` depth 6 index 41,
`Lc.nextCommitteeBranchOk` 5/23, `Lc.currentCommitteeBranchOk` 5/22 — a fold over an arbitrary hash `H`), and
`sigOk c` says "the aggregate BLS signature is valid for exactly the keys committee `c` selects by the participation
bits" (BLS and SSZ hashing are trusted; the driver evaluates the folds, the domain and the signing root itself with an
executable SHA-256 and compares every verdict and every resulting store with the Go code).

`Lc.bootstrap` carries the quirk switch `containerRoot`: the code today compares the trusted checkpoint with the root of
the whole `LightClientHeader` container instead of the beacon block root. Theorems below are about the ideal model
(`quirk = false`); `quirk_container_root_breaks_C12` is the decided witness for the deviation. -/
namespace Props.C12
open Lc

/-- "An update passes verification only if at least one committee member signed, its slots are ordered and not in the
    future, its signature period fits the store, it is relevant (newer than the finalized header or supplying a missing
    next committee), its finality and next-committee Merkle branches hold against the attested state root, and the
    aggregate BLS signature is valid for exactly the participating keys of the committee the store holds for that
    period." — all seven conjuncts, for every store, update and clock. -/
theorem verify_sound (st : Store) (u : Update) (now : Nat) (h : verify st u now = .ok ()) :
    1 ≤ u.bits ∧ now ≥ u.sigSlot ∧ u.sigSlot > u.attSlot ∧ u.attSlot ≥ finSlotOf u ∧
    (period u.sigSlot = period st.finSlot ∨ (st.next.isSome ∧ period u.sigSlot = period st.finSlot + 1)) ∧
    (u.attSlot > st.finSlot ∨ (st.next.isNone ∧ u.nextComm.isSome ∧ period u.attSlot = period st.finSlot)) ∧
    (u.fin.isSome → u.finBranch = true → u.finProofOk = true) ∧
    (u.nextComm.isSome → u.nextBranch = true → u.nextProofOk = true) ∧
    (∃ c, committeeFor st u = some c ∧ u.sigOk c = true) := Lc.verify_sound st u now h

/-- the committee the signature is checked against is the one the store holds for the signature period:
    the current one for the store's own period, the stored next one otherwise -/
theorem committee_for_period (st : Store) (u : Update) :
    (period u.sigSlot = period st.finSlot → committeeFor st u = some st.cur) ∧
    (period u.sigSlot ≠ period st.finSlot → committeeFor st u = st.next) := by
  unfold committeeFor
  constructor <;> intro h <;> simp [h]

/-- `verify` refuses exactly when one of the seven conditions is violated, and then reports one of the violated ones
    (this is what lets the driver accept any member of the violated set as the implementation's error) -/
theorem verify_complete (st : Store) (u : Update) (now : Nat) :
    (verify st u now = .ok () ↔ violated st u now = []) ∧
    (∀ e, verify st u now = .error e → e ∈ violated st u now) :=
  ⟨Lc.verify_ok_iff st u now, fun e h => Lc.verify_error_mem st u now e h⟩

/-- "its finality … Merkle branches hold against the attested state root": when the finality check of a verified
    update is the depth-6 / index-41 fold of the code, the finalized header's root sits at generalized index 105
    (`finalized_checkpoint.root`) of EVERY tree that opens the attested state root — or the run exhibits a SHA-256
    collision / a leaf that is itself a hash of two chunks (no injectivity axiom). -/
theorem verified_finality_branch_binds (H : Nat → Nat → Nat) (st : Store) (u : Update) (now : Nat)
    (finRoot stateRoot : Nat) (branch : List Nat) (hlen : 6 ≤ branch.length)
    (hdef : u.finProofOk = finalityBranchOk H finRoot branch stateRoot)
    (hf : u.fin.isSome) (hb : u.finBranch = true) (h : verify st u now = .ok ())
    (T : Mk.Tree) (hT : Mk.root H T = stateRoot) :
    (∃ t, Mk.nodeAt T 6 41 = some t ∧ Mk.root H t = finRoot) ∨ Mk.Collision H ∨ Mk.LeafPre H T := by
  have hv := (Lc.verify_sound st u now h).2.2.2.2.2.2.1 hf hb
  rw [hdef] at hv
  exact Lc.branch_sound H 6 41 finRoot branch stateRoot hlen hv T hT

/-- "… and next-committee Merkle branches hold against the attested state root": depth 5 / index 23 = generalized
    index 55 (`next_sync_committee`). -/
theorem verified_next_committee_branch_binds (H : Nat → Nat → Nat) (st : Store) (u : Update) (now : Nat)
    (commRoot stateRoot : Nat) (branch : List Nat) (hlen : 5 ≤ branch.length)
    (hdef : u.nextProofOk = nextCommitteeBranchOk H commRoot branch stateRoot)
    (hn : u.nextComm.isSome) (hb : u.nextBranch = true) (h : verify st u now = .ok ())
    (T : Mk.Tree) (hT : Mk.root H T = stateRoot) :
    (∃ t, Mk.nodeAt T 5 23 = some t ∧ Mk.root H t = commRoot) ∨ Mk.Collision H ∨ Mk.LeafPre H T := by
  have hv := (Lc.verify_sound st u now h).2.2.2.2.2.2.2.1 hn hb
  rw [hdef] at hv
  exact Lc.branch_sound H 5 23 commRoot branch stateRoot hlen hv T hT

/-- the literals are the generalized indices of the Altair…Deneb state: 2^6+41 = 105 = (32+20)·2+1, 2^5+23 = 55, 2^5+22 = 54 -/
theorem branch_constants : 2 ^ 6 + 41 = (2 ^ 5 + 20) * 2 + 1 ∧ 2 ^ 6 + 41 = 105 ∧ 2 ^ 5 + 23 = 55 ∧ 2 ^ 5 + 22 = 54 :=
  Lc.gindex_facts

/-- "Applying updates never moves the finalized or optimistic header backwards, keeps the optimistic header at or
    ahead of the finalized one" — one update, verified or not -/
theorem apply_monotone (st : Store) (u : Update) (hinv : st.finSlot ≤ st.optSlot) :
    st.finSlot ≤ (apply st u).finSlot ∧ st.optSlot ≤ (apply st u).optSlot ∧
    (apply st u).finSlot ≤ (apply st u).optSlot := Lc.apply_monotone st u hinv

/-- the same for ALL sequences of applied updates (`Reach`), hence for every run of verify-then-apply rounds -/
theorem sequences_monotone (s0 s : Store) (h0 : s0.finSlot ≤ s0.optSlot) (h : Reach s0 s) :
    s0.finSlot ≤ s.finSlot ∧ s0.optSlot ≤ s.optSlot ∧ s.finSlot ≤ s.optSlot := Lc.reach_inv s0 s h0 h

theorem run_monotone (st : Store) (us : List (Update × Nat)) (h0 : st.finSlot ≤ st.optSlot) :
    st.finSlot ≤ (run st us).finSlot ∧ st.optSlot ≤ (run st us).optSlot ∧ (run st us).finSlot ≤ (run st us).optSlot :=
  Lc.run_inv st us h0

/-- "all sequences of such updates applied to a bootstrapped store": from any successful bootstrap (ideal or as coded)
    the optimistic header is at or ahead of the finalized one after every sequence, and the finalized header never
    falls behind the bootstrap header -/
theorem opt_ge_fin_from_bootstrap (q : Bool) (cp : Nat) (b : Bootstrap) (st : Store) (hb : bootstrap q cp b = .ok st)
    (s : Store) (h : Reach st s) : b.slot ≤ s.finSlot ∧ s.finSlot ≤ s.optSlot :=
  Lc.opt_ge_fin_from_bootstrap q cp b st hb s h

/-- "changes the finalized header or the committees only for an update with at least two-thirds participation" -/
theorem change_needs_two_thirds (st : Store) (u : Update)
    (h : (apply st u).finSlot ≠ st.finSlot ∨ (apply st u).cur ≠ st.cur ∨ (apply st u).next ≠ st.next) :
    u.bits * 3 ≥ 512 * 2 := Lc.change_needs_two_thirds st u h

/-- sequence form: if the finalized header or a committee differs after a run, the run contains a 2/3 update -/
theorem run_change_needs_two_thirds (st : Store) (us : List (Update × Nat))
    (h : (run st us).finSlot ≠ st.finSlot ∨ (run st us).cur ≠ st.cur ∨ (run st us).next ≠ st.next) :
    ∃ p ∈ us, p.1.bits * 3 ≥ 512 * 2 := Lc.run_change_needs_two_thirds st us h

/-- "and rotates the current committee only to the previously stored next committee" -/
theorem rotate_only_to_next (st : Store) (u : Update) (h : (apply st u).cur ≠ st.cur) :
    st.next = some (apply st u).cur := Lc.rotate_only_to_next st u h

/-- a rotation uses the stored next committee up: afterwards "next" is exactly what this update supplied (nothing, for a
    finality update), never the committee that has just become current -/
theorem rotation_consumes_next (st : Store) (u : Update) (h : (apply st u).cur ≠ st.cur) :
    (apply st u).next = u.nextComm := Lc.rotation_consumes_next st u h

/-- the next committee a VERIFIED update installs is the update's, and its attested header lies in the period of the
    store's finalized header after the update: the committee is the one for the period that follows -/
theorem next_committee_period (st : Store) (u : Update) (now : Nat) (hv : verify st u now = .ok ())
    (hch : (apply st u).next ≠ st.next) :
    (apply st u).next = u.nextComm ∧ (u.nextComm.isSome → period u.attSlot = period (apply st u).finSlot) :=
  Lc.next_committee_period st u now hv hch

/-- "bootstrap binds the store to the trusted checkpoint root" (ideal model): a bootstrap succeeds only if the beacon
    block root IS the checkpoint and the current-committee branch (depth 5, index 22) holds; the store then holds that
    header as finalized and optimistic, that committee, and no next committee -/
theorem bootstrap_sound (cp : Nat) (b : Bootstrap) (st : Store) (h : bootstrap false cp b = .ok st) :
    b.beaconRoot = cp ∧ b.committeeProofOk = true ∧ st.finSlot = b.slot ∧ st.optSlot = b.slot ∧
    st.cur = b.committee ∧ st.next = none ∧ st.finSlot ≤ st.optSlot := Lc.bootstrap_sound cp b st h

theorem bootstrap_committee_branch_binds (H : Nat → Nat → Nat) (cp : Nat) (b : Bootstrap) (st : Store)
    (commRoot stateRoot : Nat) (branch : List Nat) (hlen : 5 ≤ branch.length)
    (hdef : b.committeeProofOk = currentCommitteeBranchOk H commRoot branch stateRoot)
    (h : bootstrap false cp b = .ok st) (T : Mk.Tree) (hT : Mk.root H T = stateRoot) :
    (∃ t, Mk.nodeAt T 5 22 = some t ∧ Mk.root H t = commRoot) ∨ Mk.Collision H ∨ Mk.LeafPre H T := by
  have hv := (Lc.bootstrap_sound cp b st h).2.1
  rw [hdef] at hv
  exact Lc.branch_sound H 5 22 commRoot branch stateRoot hlen hv T hT

/-- NEGATIVE result for the code as it is (`quirk = true`, `light_client.go:251`): a bootstrap is accepted although its
    beacon block root is not the checkpoint, and the honest bootstrap for a block-root checkpoint is refused. -/
theorem quirk_container_root_breaks_C12 :
    (∃ cp b st, bootstrap true cp b = .ok st ∧ b.beaconRoot ≠ cp) ∧
    bootstrap true 5 { slot := 64, beaconRoot := 5, containerRoot := 7, committee := 1, committeeProofOk := true, isElectra := true }
      = .error .headerMismatch :=
  ⟨Lc.quirk_container_root_breaks_binding, Lc.quirk_container_root_refuses_honest⟩

/-! non-vacuity: a bootstrap that succeeds, an update that passes `verify` and sets the next committee, a second one
    across the period boundary that rotates the committee -/
def b0 : Bootstrap :=
  { slot := 8192 * 10 + 100, beaconRoot := 5, containerRoot := 7, committee := 1, committeeProofOk := true, isElectra := true }
def st0 : Store := { finSlot := 8192 * 10 + 100, optSlot := 8192 * 10 + 100, cur := 1, next := none, prevMax := 0, curMax := 0 }
def u0 : Update :=
  { attSlot := 8192 * 10 + 200, sigSlot := 8192 * 10 + 201, fin := some (8192 * 10 + 136), finBranch := true,
    nextComm := some 2, nextBranch := true, bits := 400, finProofOk := true, nextProofOk := true, sigOk := fun c => c == 1 }
def u1 : Update :=
  { attSlot := 8192 * 11 + 70, sigSlot := 8192 * 11 + 71, fin := some (8192 * 11 + 5), finBranch := true,
    nextComm := some 3, nextBranch := true, bits := 512, finProofOk := true, nextProofOk := true, sigOk := fun c => c == 2 }
def u0few : Update := { u0 with bits := 341 }

example : bootstrap false 5 b0 = .ok st0 := rfl
example : verify st0 u0 (8192 * 10 + 201) = .ok () := rfl
example : (apply st0 u0).next = some 2 ∧ (apply st0 u0).finSlot = 8192 * 10 + 136 ∧ (apply st0 u0).optSlot = 8192 * 10 + 200 :=
  ⟨rfl, rfl, rfl⟩
example : verify (apply st0 u0) u1 (8192 * 11 + 80) = .ok () := rfl
example : (apply (apply st0 u0) u1).cur = 2 ∧ (apply (apply st0 u0) u1).next = some 3 := ⟨rfl, rfl⟩
example : run st0 [(u0, 8192 * 10 + 201), (u1, 8192 * 11 + 80)] = apply (apply st0 u0) u1 := rfl
-- the same update with 341 signers verifies but changes neither the finalized header nor a committee
example : verify st0 u0few (8192 * 10 + 201) = .ok () ∧ (apply st0 u0few).finSlot = st0.finSlot ∧ (apply st0 u0few).next = none :=
  ⟨rfl, rfl, rfl⟩
-- a wrong signer, a future signature slot and a broken finality branch are refused
example : verify st0 { u0 with sigOk := fun c => c == 2 } (8192 * 10 + 201) = .error .invalidSignature := rfl
example : verify st0 u0 (8192 * 10 + 200) = .error .invalidTimestamp := rfl
example : verify st0 { u0 with finProofOk := false } (8192 * 10 + 201) = .error .invalidFinalityProof := rfl

#print axioms verify_sound
#print axioms committee_for_period
#print axioms verify_complete
#print axioms verified_finality_branch_binds
#print axioms verified_next_committee_branch_binds
#print axioms branch_constants
#print axioms apply_monotone
#print axioms sequences_monotone
#print axioms run_monotone
#print axioms opt_ge_fin_from_bootstrap
#print axioms change_needs_two_thirds
#print axioms run_change_needs_two_thirds
#print axioms rotate_only_to_next
#print axioms rotation_consumes_next
#print axioms next_committee_period
#print axioms bootstrap_sound
#print axioms bootstrap_committee_branch_binds
#print axioms quirk_container_root_breaks_C12
end Props.C12
