import Shisui.History.Content
import Shisui.History.Gate
/-! # C02 — History content is accepted only when bound to its key and the trusted roots

> A history content item is accepted - validated, stored or returned by the block getters - only if it is
> cryptographically tied to the key it was requested or offered under: a header's hash (or number) equals the key's and
> its proof verifies against the built-in accumulators; a body's transaction, uncle and withdrawal roots, and a receipt
> list's root, equal those of the header with the key's block hash. Any other byte string under that key is rejected with
> an error.

Model (`Shisui/History/Content.lean`, `Shisui/History/Gate.lean`): `Hc.validateContent env q rpc key content` is
`HistoryValidator.ValidateContent` (history/validation.go:94-146, history_network.go:250-291,421-433) with the real
`ValidationOracle.GetBlockHeaderByHash` (validation/oracle.go:73-94) in front of an ARBITRARY header source `rpc` (what
`portal_historyGetContent` answers — portalwire/api.go:543-569 returns looked-up content as is, so it may be anything), over
an ARBITRARY decoding environment `env` (rlp, keccak, `DeriveSha`, `CalcUncleHash`, the SSZ containers and the header-proof
check of C03 are parameters; nothing is assumed about them). `Hg.gate` is `Network.validateContents`, `Hg.getter` the three
block getters (history_network.go:76-248).

The theorems are about the ideal model `q = {}`; the code as it is differs at five places (`Hc.Quirks`), each with a decided
counter-example below that the check replays against the real code. The driver compares the code with the model whose
switches are given on its command line and evaluates `accepted ⇒ bound` on the code's own verdicts. `Hdr.hash` is always the
hash recomputed from the decoded header, so "a header whose hash is the key's" (`Hc.HeaderWithHash`) is a statement about
`env.decodeHeader`, not about a claimed value; hash collisions are not assumed away (see `accepted_body_matches_the_header`). -/
namespace Props.C02
open Hc

/-- "A history content item is accepted - validated … - only if it is cryptographically tied to the key it was requested or
    offered under" — for every decoding environment, key, content and every header source however it lies.
    `Hc.Bound` is spelled out per key type by the four corollaries below. -/
theorem accept_sound (env : Env) (rpc : Bytes → Option Bytes) (key content : Bytes)
    (hv : validateContent env {} rpc key content = .ok) : Bound env key content :=
  Hc.accept_sound env rpc key content hv

/-- "a header's hash … equals the key's and its proof verifies against the built-in accumulators" (key `00 ‖ h`) -/
theorem accepted_header_by_hash (env : Env) (rpc : Bytes → Option Bytes) (h content : Bytes)
    (hv : validateContent env {} rpc (0 :: h) content = .ok) :
    ∃ hb pf hd, env.decodeHWP content = some (hb, pf) ∧ env.decodeHeader hb = some hd ∧
      hd.hash = h ∧ env.proofCheck hd pf = .ok := by
  have := Hc.accept_sound env rpc (0 :: h) content hv
  simpa [Bound, parseKey] using this

/-- "a header's … (or number) equals the key's and its proof verifies" (key `03 ‖ n` as 8 little-endian bytes) -/
theorem accepted_header_by_number (env : Env) (rpc : Bytes → Option Bytes) (p content : Bytes) (hp : 8 ≤ p.length)
    (hv : validateContent env {} rpc (3 :: p) content = .ok) :
    ∃ hb pf hd, env.decodeHWP content = some (hb, pf) ∧ env.decodeHeader hb = some hd ∧
      hd.number = leNat (p.take 8) ∧ env.proofCheck hd pf = .ok := by
  have := Hc.accept_sound env rpc (3 :: p) content hv
  simpa [Bound, parseKey, hp] using this

/-- "a body's transaction, uncle and withdrawal roots … equal those of the header with the key's block hash" (key `01 ‖ h`):
    some header that DECODES (so its hash is the recomputed one) has hash `h` and exactly these three roots; a legacy body
    (no withdrawals list) is only bound to a header without a withdrawals root and vice versa -/
theorem accepted_body (env : Env) (rpc : Bytes → Option Bytes) (h content : Bytes)
    (hv : validateContent env {} rpc (1 :: h) content = .ok) :
    ∃ b hd, env.decodeBody content = some b ∧ HeaderWithHash env h hd ∧
      b.txRoot = hd.txRoot ∧ b.uncleRoot = hd.uncleRoot ∧ b.wdRoot = hd.wdRoot := by
  have := Hc.accept_sound env rpc (1 :: h) content hv
  simpa [Bound, parseKey] using this

/-- "a receipt list's root equal[s] [that] of the header with the key's block hash" (key `02 ‖ h`); a header with the empty
    receipt root is matched by the empty byte string only -/
theorem accepted_receipts (env : Env) (rpc : Bytes → Option Bytes) (h content : Bytes)
    (hv : validateContent env {} rpc (2 :: h) content = .ok) :
    ∃ hd, HeaderWithHash env h hd ∧
      (if hd.receiptRoot = emptyReceiptRoot then content = []
       else content ≠ [] ∧ env.decodeReceipts content = some hd.receiptRoot) := by
  have := Hc.accept_sound env rpc (2 :: h) content hv
  simpa [Bound, parseKey] using this

/-- "those of THE header with the key's block hash": for any decodable header `hd'` whose hash is the key's, an accepted
    body carries `hd'`'s roots — or two different decodable headers with one hash have been exhibited (no injectivity axiom) -/
theorem accepted_body_matches_the_header (env : Env) (rpc : Bytes → Option Bytes) (h content : Bytes)
    (hv : validateContent env {} rpc (1 :: h) content = .ok)
    (hb' : Bytes) (hd' : Hdr) (hdec : env.decodeHeader hb' = some hd') (hh : hd'.hash = h) :
    ∃ b, env.decodeBody content = some b ∧
      ((b.txRoot = hd'.txRoot ∧ b.uncleRoot = hd'.uncleRoot ∧ b.wdRoot = hd'.wdRoot) ∨
       (∃ hb hd, env.decodeHeader hb = some hd ∧ hd.hash = hd'.hash ∧ hd ≠ hd')) :=
  Hc.accepted_body_matches_the_header env rpc h content hv hb' hd' hdec hh

/-- the same for receipts -/
theorem accepted_receipts_match_the_header (env : Env) (rpc : Bytes → Option Bytes) (h content : Bytes)
    (hv : validateContent env {} rpc (2 :: h) content = .ok)
    (hb' : Bytes) (hd' : Hdr) (hdec : env.decodeHeader hb' = some hd') (hh : hd'.hash = h) :
    (if hd'.receiptRoot = emptyReceiptRoot then content = []
     else content ≠ [] ∧ env.decodeReceipts content = some hd'.receiptRoot) ∨
    (∃ hb hd, env.decodeHeader hb = some hd ∧ hd.hash = hd'.hash ∧ hd ≠ hd') :=
  Hc.accepted_receipts_match_the_header env rpc h content hv hb' hd' hdec hh

/-- "Any other byte string under that key is rejected with an error": not bound ⇒ the verdict is `err` — never `ok`,
    never a panic; this includes every malformed, unknown-selector and empty key -/
theorem reject_total (env : Env) (rpc : Bytes → Option Bytes) (key content : Bytes)
    (hn : ¬ Bound env key content) : validateContent env {} rpc key content = .err :=
  Hc.reject_total env rpc key content hn

/-- no key, content, decoder behaviour or source answer makes the (ideal) validator panic -/
theorem never_panics (env : Env) (rpc : Bytes → Option Bytes) (key content : Bytes) :
    validateContent env {} rpc key content ≠ .panic := Hc.never_panics env rpc key content

/-- "every header source the validator consults": whatever `portal_historyGetContent` answers, the (ideal) oracle returns
    for a requested hash only a header that decodes and whose recomputed hash is the requested one -/
theorem oracle_returns_requested_header (env : Env) (rpc : Bytes → Option Bytes) (h : Bytes) (hd : Hdr)
    (hl : oracleLookup env {} rpc h = some hd) : HeaderWithHash env h hd := Hc.oracleLookup_bound env rpc h hd hl

/-- "accepted - … stored …": every `Put` made by `validateContents` is of an offered item that the validator accepted, hence
    of bound content — for every item list and every store content -/
theorem put_gated (env : Env) (rpc : Bytes → Option Bytes) (st : Hg.Store Bytes Bytes) (items : List (Bytes × Bytes)) :
    ∀ p ∈ (Hg.gate (validateContent env {} rpc) st items).2.1, p ∈ items ∧ Bound env p.1 p.2 := by
  intro p hp
  have := Hg.gate_puts_validated (validateContent env {} rpc) items st p hp
  exact ⟨this.1, Hc.accept_sound env rpc p.1 p.2 this.2⟩

/-- "accepted - … returned by the block getters": what a getter returns is the decoding of content that was already in the
    store under the requested key, or of looked-up content that is bound to the requested key; and what it stores is bound -/
theorem getter_returns_bound {R : Type} (env : Env) (rpc : Bytes → Option Bytes) (dec : Bytes → Option R)
    (st : Hg.Store Bytes Bytes) (remote : Bytes → Option Bytes) (key : Bytes) :
    (∀ r, (Hg.getter (validateContent env {} rpc) dec st remote key).2.2.1 = some r →
        ∃ c, dec c = some r ∧ ((key, c) ∈ st ∨ (remote key = some c ∧ Bound env key c))) ∧
    (∀ p, (Hg.getter (validateContent env {} rpc) dec st remote key).2.1 = some p → p.1 = key ∧ Bound env p.1 p.2) := by
  constructor
  · intro r hr
    obtain ⟨c, h1, h2⟩ := Hg.getter_returns_validated (validateContent env {} rpc) dec st remote key r hr
    refine ⟨c, h1, ?_⟩
    rcases h2 with h2 | ⟨h2, h3⟩
    · exact Or.inl h2
    · exact Or.inr ⟨h2, Hc.accept_sound env rpc key c h3⟩
  · intro p hp
    have := Hg.getter_puts_validated (validateContent env {} rpc) dec st remote key p hp
    exact ⟨this.1, Hc.accept_sound env rpc p.1 p.2 this.2⟩

/-- the store as a whole: over EVERY history of accepted offers and getter calls from an empty store — the header source
    may answer differently (and lie differently) at every step — the store only ever holds content bound to its key, so the
    getters' local path (which returns stored content without validating it again) returns bound content too -/
theorem store_only_holds_bound_content {R : Type} (env : Env) (dec : Bytes → Option R)
    (ops : List (Hg.Op Bytes Bytes))
    (hops : ∀ op ∈ ops, ∃ rpc, op.validator = validateContent env {} rpc) :
    ∀ p ∈ Hg.run dec ([] : Hg.Store Bytes Bytes) ops, Bound env p.1 p.2 := by
  apply Hg.run_clean dec (fun k c => Bound env k c) ops
  · intro op hop k c hv
    obtain ⟨rpc, hr⟩ := hops op hop
    rw [hr] at hv
    exact Hc.accept_sound env rpc k c hv
  · intro p hp; cases hp

/-- the function the driver executes on the harness's observations is the byte-level model: -/
theorem driver_model_is_the_model (env : Env) (q : Quirks) (rpc : Bytes → Option Bytes) (key content : Bytes)
    (k : Key) (hk : parseKey key = some k) :
    validateContent env q rpc key content = validateKey q (srcOf env rpc) key (observe env k content) :=
  Hc.validateContent_eq_validateKey env q rpc key content k hk

/-- at the observation level the ideal verdict is `ok` EXACTLY when the pair is bound relative to the source's answer -/
theorem accept_iff_bound_obs (src : Bytes → Option Hdr) (k : Key) (c : Content) :
    validate {} src k c = .ok ↔ BoundObs src k c := Hc.validate_ok_iff src k c

/-! ## Negative results: the code as it is (each switch, one decided witness; replayed on the real code by the check) -/

/-- validation/oracle.go:73-94 — the looked-up header is never compared with the requested hash: a lying source gets a
    forged body accepted under a key whose hash no served header has -/
theorem oracle_unbound_breaks_C02 :
    let forged : Hdr := { hash := hx 99, number := 1, txRoot := hx 7, uncleRoot := hx 8, wdRoot := none, receiptRoot := hx 9 }
    let b : Body := { txRoot := hx 7, uncleRoot := hx 8, wdRoot := none }
    validate { oracleUnbound := true } (fun _ => some forged) (.body (hx 42)) (.body b) = .ok ∧
    validate {} (fun _ => some forged) (.body (hx 42)) (.body b) = .err ∧
    ¬ BoundObs (fun _ => some forged) (.body (hx 42)) (.body b) := Hc.quirk_oracle_unbound_breaks_C02

/-- history_network.go:283 — a body without its withdrawals is accepted for a header that commits to them -/
theorem legacy_body_breaks_C02 :
    let hd : Hdr := { hash := hx 42, number := 18000000, txRoot := hx 7, uncleRoot := hx 8, wdRoot := some (hx 5), receiptRoot := hx 9 }
    let b : Body := { txRoot := hx 7, uncleRoot := hx 8, wdRoot := none }
    validate { legacyBodySkipsWithdrawals := true } (fun _ => some hd) (.body (hx 42)) (.body b) = .ok ∧
    validate {} (fun _ => some hd) (.body (hx 42)) (.body b) = .err := Hc.quirk_legacy_body_breaks_C02

/-- history_network.go:286 — a Shanghai-format body under a header without a withdrawals root panics instead of failing -/
theorem nil_withdrawals_hash_breaks_C02 :
    let hd : Hdr := { hash := hx 42, number := 100, txRoot := hx 7, uncleRoot := hx 8, wdRoot := none, receiptRoot := hx 9 }
    let b : Body := { txRoot := hx 7, uncleRoot := hx 8, wdRoot := some (hx 5) }
    validate { nilWithdrawalsHashDeref := true } (fun _ => some hd) (.body (hx 42)) (.body b) = .panic ∧
    validate {} (fun _ => some hd) (.body (hx 42)) (.body b) = .err := Hc.quirk_nil_withdrawals_hash_breaks_C02

/-- validation/header_validator.go:113 (C03's finding seen from here) — a header whose proof check panics -/
theorem header_proof_panics_breaks_C02 :
    let hd : Hdr := { hash := hx 42, number := 15600000, txRoot := hx 7, uncleRoot := hx 8, wdRoot := none, receiptRoot := hx 9 }
    validate { headerProofPanics := true } (fun _ => none) (.headerByHash (hx 42)) (.header hd .panic) = .panic ∧
    validate {} (fun _ => none) (.headerByHash (hx 42)) (.header hd .panic) = .err := Hc.quirk_header_proof_panics_breaks_C02

/-- history/validation.go:95 — `contentKey[0]` on the empty key -/
theorem empty_key_breaks_C02 :
    validateKey { emptyKeyPanics := true } (fun _ => none) [] .undecodable = .panic ∧
    validateKey {} (fun _ => none) [] .undecodable = .err := Hc.quirk_empty_key_breaks_C02

/-! ## The hypotheses are satisfiable: a toy environment in which content is accepted, rejected and stored -/

/-- header bytes `[n]` decode to header number n with hash `[n]` and roots 7/8/9; a body `[a, b]` has roots a/b -/
def toyEnv : Env where
  decodeHWP c := some (c, [])
  decodeHeader hb := match hb with
    | [n] => some { hash := [n], number := n, txRoot := [7], uncleRoot := [8], wdRoot := none, receiptRoot := [9] }
    | _ => none
  proofCheck hd _ := if hd.number < 100 then .ok else .err
  decodeBody c := match c with
    | [a, b] => some { txRoot := [a], uncleRoot := [b], wdRoot := none }
    | _ => none
  decodeReceipts c := some c

-- an honest source: the body with the header's roots is accepted under the header's hash …
example : validateContent toyEnv {} (fun _ => some [42]) [1, 42] [7, 8] = .ok := by decide
-- … another body is not, a lying source makes no difference to the ideal validator, and it does to the code as it is
example : validateContent toyEnv {} (fun _ => some [42]) [1, 42] [7, 9] = .err := by decide
example : validateContent toyEnv {} (fun _ => some [43]) [1, 42] [7, 8] = .err := by decide
example : validateContent toyEnv { oracleUnbound := true } (fun _ => some [43]) [1, 42] [7, 8] = .ok := by decide
-- headers: hash and number keys, proof verdict
example : validateContent toyEnv {} (fun _ => none) [0, 42] [42] = .ok := by decide
example : validateContent toyEnv {} (fun _ => none) [0, 41] [42] = .err := by decide
example : validateContent toyEnv {} (fun _ => none) [3, 42, 0, 0, 0, 0, 0, 0, 0] [42] = .ok := by decide
example : validateContent toyEnv {} (fun _ => none) [0, 200] [200] = .err := by decide
-- receipts
example : validateContent toyEnv {} (fun _ => some [42]) [2, 42] [9] = .ok := by decide
example : validateContent toyEnv {} (fun _ => some [42]) [2, 42] [] = .err := by decide
-- `Bound` holds of the accepted pair (so `accept_sound` is not vacuous) and fails of another (so `reject_total` is not)
example : Bound toyEnv [1, 42] [7, 8] := accept_sound toyEnv (fun _ => some [42]) _ _ (by decide)
example : ¬ Bound toyEnv [1, 42] [7, 9] := by
  intro h
  simp only [Bound, parseKey, toyEnv] at h
  simp at h
  obtain ⟨hd, ⟨⟨hb, h1⟩, h2⟩, h3, h4, _⟩ := h
  dsimp only at h1
  match hb, h1 with
  | [n], h1 => simp only [Option.some.injEq] at h1; subst h1; simp at h4
  | [], h1 => simp at h1
  | _ :: _ :: _, h1 => simp at h1
-- the gate: accepted items are stored, a key that is already stored (before the call or by it) is skipped, and the call
-- ends at the first rejected item
example : (Hg.gate (validateContent toyEnv {} (fun _ => some [42])) [([2, 42], [1])]
            [([1, 42], [7, 8]), ([2, 42], [5]), ([1, 42], [7, 9]), ([0, 42], [42])]).2
          = ([([1, 42], [7, 8]), ([0, 42], [42])], .ok) := by decide
example : (Hg.gate (validateContent toyEnv {} (fun _ => some [42])) []
            [([0, 42], [42]), ([2, 42], [5]), ([1, 42], [7, 8])]).2 = ([([0, 42], [42])], .err) := by decide

#print axioms accept_sound
#print axioms accepted_header_by_hash
#print axioms accepted_header_by_number
#print axioms accepted_body
#print axioms accepted_receipts
#print axioms accepted_body_matches_the_header
#print axioms accepted_receipts_match_the_header
#print axioms reject_total
#print axioms never_panics
#print axioms oracle_returns_requested_header
#print axioms put_gated
#print axioms getter_returns_bound
#print axioms store_only_holds_bound_content
#print axioms driver_model_is_the_model
#print axioms accept_iff_bound_obs
#print axioms oracle_unbound_breaks_C02
#print axioms legacy_body_breaks_C02
#print axioms nil_withdrawals_hash_breaks_C02
#print axioms header_proof_panics_breaks_C02
#print axioms empty_key_breaks_C02
end Props.C02
