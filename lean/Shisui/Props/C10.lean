import Shisui.LookupReach
/-! # C10 — Lookups terminate, ask each peer once, and return the closest nodes seen

Model: `Lk` (`portalwire/lookup.go`): state `asked, seen, result, inflight`; `Lk.init` (first "query" answers from the
local table), `Lk.reply` (one outstanding query completes with any answer, then `startQueries`), `Lk.drain` (cancellation).
A schedule is any list of (peer, answer) events; answers are arbitrary lists (duplicates, the asker, the local node,
cycles); a failing or silent peer answers `[]`. `Nd` models `nodesByDistance.push`. -/
namespace Props.C10
open Lk

/-- "never have more than 3 queries in flight, ask no peer twice and never ask the local node" — every schedule -/
theorem inflight_asked_self (d : Nat → Nat) (me : Nat) (localClosest : List Nat) (es : List Event) :
    let s := run d (init d me localClosest) es
    s.inflight.length ≤ 3 ∧ s.asked.Nodup ∧ s.inflight.Nodup ∧ (∀ n ∈ s.inflight, n ∈ s.asked) ∧ me ∉ s.inflight := by
  have h := run_inv d me es _ (init_inv d me localClosest)
  exact ⟨h.infl, h.askedND, h.inflND, h.sub, h.selfNot⟩

/-- "finish after at most one query per peer": over a finite universe `U`, any schedule performs at most
    `2·|unasked| + inflight ≤ 2·|U| + 3` replies — for all orders in which outstanding queries complete -/
theorem terminates (d : Nat → Nat) (U : List Nat) (hU : U.Nodup) (me : Nat) (localClosest : List Nat)
    (hl : ∀ n ∈ localClosest, n ∈ U) (es : List Event) (hes : ∀ e ∈ es, ∀ n ∈ e.2, n ∈ U) :
    steps d (init d me localClosest) es ≤ 2 * U.length + 3 := by
  have hres : ∀ n ∈ (init d me localClosest).result, n ∈ U := by
    intro n hn
    unfold init start at hn
    rw [(foldl_ask_result _ _).1] at hn
    rcases foldl_see_result_sub d localClosest _ n hn with h | h
    · exact hl n h
    · simp at h
  have h1 := steps_bounded d U hU es hes _ hres
  have h2 : mu U (init d me localClosest) ≤ 2 * U.length + 3 := by
    have hi := (init_inv d me localClosest).infl
    simp only [mu, unasked, alpha] at *
    have : (U.filter (fun n => n ∉ (init d me localClosest).asked)).length ≤ U.length := List.length_filter_le _ _
    omega
  omega

/-- "The node lookup returns at most 16 distinct nodes sorted by XOR distance to the target with no closer seen node
    omitted": in every reachable state the result is the first 16 of the sorted list of everything seen -/
theorem result_closest (d : Nat → Nat) (me : Nat) (localClosest : List Nat) (es : List Event) :
    let s := run d (init d me localClosest) es
    s.result.length ≤ 16 ∧ Nd.Sorted d s.result ∧ (∀ r ∈ s.result, r ∈ s.seen) ∧
    (∀ r ∈ s.result, ∀ m ∈ (Nd.allSorted d s.seen.reverse).drop 16, d r ≤ d m) := by
  have h := run_resOk d es _ (init_resOk d me localClosest)
  simp only
  unfold ResOk at h
  rw [h]
  have := Nd.result_closest d kRes (run d (init d me localClosest) es).seen.reverse
  exact ⟨this.1, this.2.1, fun r hr => List.mem_reverse.mp (this.2.2.1 r hr), this.2.2.2⟩

/-- cancellation at any moment: draining asks nobody new, leaves the result as it is, and empties the in-flight set
    after at most `inflight ≤ 3` answers -/
theorem cancel_drains (s : LState) (ps : List Nat) :
    (drain s ps).asked = s.asked ∧ (drain s ps).result = s.result ∧ (drain s ps).inflight.length ≤ s.inflight.length :=
  Lk.drain_keeps ps s

/-! ### content lookup: the first content supplied wins (`atomic.CompareAndSwap` on `hasResult`) -/

inductive CReply where
  | nodes (l : List Nat)
  | content (c : List Nat)
deriving DecidableEq

def cstep (res : Option (List Nat)) : CReply → Option (List Nat)
  | .content c => match res with | none => some c | some r => some r
  | .nodes _ => res

def cresult (rs : List CReply) : Option (List Nat) := rs.foldl cstep none

theorem cstep_some (rs : List CReply) (c : List Nat) : rs.foldl cstep (some c) = some c := by
  induction rs with
  | nil => rfl
  | cons r rs ih => cases r <;> simpa [cstep] using ih

/-- "a content lookup returns the bytes some queried peer supplied if any did, and not-found otherwise" -/
theorem content_result (rs : List CReply) :
    (cresult rs = none ↔ ∀ r ∈ rs, ∃ l, r = .nodes l) ∧ (∀ c, cresult rs = some c → .content c ∈ rs) := by
  unfold cresult
  induction rs with
  | nil => simp
  | cons r rs ih =>
    cases r with
    | nodes l =>
      simp only [List.foldl_cons, cstep]
      constructor
      · rw [ih.1]
        constructor
        · intro h x hx
          rcases List.mem_cons.mp hx with rfl | hx
          · exact ⟨l, rfl⟩
          · exact h x hx
        · intro h x hx; exact h x (List.mem_cons_of_mem _ hx)
      · intro c hc; exact List.mem_cons_of_mem _ (ih.2 c hc)
    | content c =>
      simp only [List.foldl_cons, cstep, cstep_some]
      constructor
      · constructor
        · intro h; cases h
        · intro h
          obtain ⟨l, hl⟩ := h (.content c) (List.mem_cons_self ..)
          cases hl
      · intro c' hc'
        cases hc'
        exact List.mem_cons_self ..

-- non-vacuity
example : (init (fun n => n) 0 [5, 3, 9, 7]).inflight = [7, 5, 3] := by decide
example : cresult [.nodes [1], .content [7], .content [8]] = some [7] := by decide

#print axioms inflight_asked_self
#print axioms terminates
#print axioms result_closest
#print axioms cancel_drains
#print axioms content_result
end Props.C10
