import Shisui.HeaderProofSound
/-! # C03 — Header proofs: honest proofs verify and nothing else does, in all four eras

Statement: "For any set of trusted accumulators (pre-merge epoch roots, historical roots, historical summaries) and
any header, the proof check succeeds exactly when the header's hash is the leaf committed at the position fixed by
its block number (pre-merge) or by the proof's slot (post-merge). An honestly generated proof always verifies; a
proof for another header, position, slot or era, or with any altered sibling, never does, and out-of-range
positions yield an error."

Model: `Hp.validate` (`ValidateHeaderAndProof`: era dispatch, the four era validators with the code's index
expressions, table look-ups with Go's bounds behaviour, the summaries provider with its wrapping subtraction and
oracle) over `Mk.fold` (the loop of fastssz `VerifyProof` and zrnt `VerifyMerkleBranch`). The hash `H` is a
PARAMETER: every theorem holds for every two-to-one function, so "never" is stated in binding form — an accepted
forgery yields an explicit collision (`Mk.Collision H`: two distinct input pairs with equal output) or an explicit
leaf pre-image (`Mk.LeafPre H T`: a leaf chunk of the committed tree that is itself `H a b`); no injectivity axiom.
Trees `T`, `B` range over ALL openings of the trusted roots (any shape, any size). `Hp.ideal` is the model with both
table accesses bounds-checked; `Hp.asIs` is the code (theorems `*_unchecked_panics`). The driver compares the real
validator with this model on every run (`Driver/C03.lean`). -/
namespace Props.C03
open Hp Mk

variable (H : Hash → Hash → Hash)

/-! ## "An honestly generated proof always verifies" -/

/-- pre-merge: for every epoch content `recs` (any chain length ≤ 8192, zero padded), every table that holds the
    epoch's root at `n / 8192`, every record `n mod 8192` of the chain: the proof of the model prover
    (`history.BuildProof`: 14 siblings + the length chunk) has 15 siblings and is accepted -/
theorem honest_verifies_premerge (q : Quirks) (t : Tables) (recs : List (Hash × Hash)) (n : Nat) (hash td : Hash)
    (htab : t.epochs[n / epochSize]? = some (epochRoot H recs))
    (hrec : recs[n % epochSize]? = some (hash, td)) :
    ∃ sib, proveEpoch H recs n = some sib ∧ sib.length = 15 ∧ validatePre H q t n hash (some sib) = .ok :=
  complete_premerge H q t recs n hash td htab hrec

/-- … and through the top-level entry for every pre-merge block number and every byte string that splits into
    those 15 chunks -/
theorem honest_verifies_premerge_top (q : Quirks) (t : Tables) (recs : List (Hash × Hash)) (n : Nat) (hash td : Hash)
    (hn : n < mergeBlock)
    (htab : t.epochs[n / epochSize]? = some (epochRoot H recs))
    (hrec : recs[n % epochSize]? = some (hash, td)) :
    ∃ sib, proveEpoch H recs n = some sib ∧
      ∀ bytes, chunksOf bytes = some sib → validate H q t n hash bytes = .ok := by
  obtain ⟨sib, h1, _, h3⟩ := complete_premerge H q t recs n hash td htab hrec
  exact ⟨sib, h1, fun bytes hb => by rw [validate_premerge H q t n hash bytes hn, hb]; exact h3⟩

/-- merge … Capella: whenever the trusted historical root of batch `slot / 8192` opens to a tree `T` whose node at
    the slot's position is (hashes as) a beacon block tree `B` holding the header hash at gindex 3228, the model
    prover's 14 + 11 siblings are accepted -/
theorem honest_verifies_bellatrix (q : Quirks) (t : Tables) (T B tb te : Tree) (slot : Nat) (hash : Hash)
    (htab : t.roots[slot / epochSize]? = some (root H T))
    (hT : nodeAt T 14 (bellIndex slot) = some tb) (hTB : root H tb = root H B)
    (hB : nodeAt B 11 gindexBellatrix = some te) (hte : root H te = hash) :
    ∃ bp ep, prove H T 14 (bellIndex slot) = some (bp, root H B) ∧ prove H B 11 gindexBellatrix = some (ep, hash) ∧
      bp.length = 14 ∧ ep.length = 11 ∧ validateBell H q t hash (mkPM bp (root H B) ep slot) = .ok :=
  complete_bellatrix H q t T B tb te slot hash htab hT hTB hB hte

/-- Capella (gindex 3228, 11 siblings) against the summary the provider returns for the slot -/
theorem honest_verifies_capella (t : Tables) (T B tb te : Tree) (slot : Nat) (hash : Hash)
    (htab : lookupSummary t slot = some (root H T))
    (hT : nodeAt T 13 (summIndex slot) = some tb) (hTB : root H tb = root H B)
    (hB : nodeAt B 11 gindexBellatrix = some te) (hte : root H te = hash) :
    ∃ bp ep, prove H T 13 (summIndex slot) = some (bp, root H B) ∧ prove H B 11 gindexBellatrix = some (ep, hash) ∧
      bp.length = 13 ∧ ep.length = 11 ∧ validateSumm H gindexBellatrix t hash (mkPM bp (root H B) ep slot) = .ok :=
  complete_summaries H gindexBellatrix 11 t T B tb te slot hash htab hT hTB hB hte

/-- Deneb (gindex 6444, 12 siblings) -/
theorem honest_verifies_deneb (t : Tables) (T B tb te : Tree) (slot : Nat) (hash : Hash)
    (htab : lookupSummary t slot = some (root H T))
    (hT : nodeAt T 13 (summIndex slot) = some tb) (hTB : root H tb = root H B)
    (hB : nodeAt B 12 gindexDeneb = some te) (hte : root H te = hash) :
    ∃ bp ep, prove H T 13 (summIndex slot) = some (bp, root H B) ∧ prove H B 12 gindexDeneb = some (ep, hash) ∧
      bp.length = 13 ∧ ep.length = 12 ∧ validateSumm H gindexDeneb t hash (mkPM bp (root H B) ep slot) = .ok :=
  complete_summaries H gindexDeneb 12 t T B tb te slot hash htab hT hTB hB hte

/-! ## "the proof check succeeds [only] when the header's hash is the leaf committed at the position fixed by its
       block number (pre-merge) or by the proof's slot (post-merge)" -/

/-- pre-merge, any opening `T` of the trusted epoch root: accepted ⇒ the node at depth 15 along index
    `4·8192 + 2·(n mod 8192)` hashes to the header hash ∨ explicit collision ∨ explicit leaf pre-image -/
theorem accepted_is_committed_premerge (q : Quirks) (t : Tables) (n : Nat) (hash : Hash) (sib : Option (List Hash))
    (hok : validatePre H q t n hash sib = .ok) (T : Tree)
    (hT : t.epochs[n / epochSize]? = some (root H T)) :
    (∃ tn, nodeAt T 15 (preIndex n) = some tn ∧ root H tn = hash) ∨ Collision H ∨ LeafPre H T :=
  sound_premerge H q t n hash sib hok T hT

/-- pre-merge, in terms of the accumulator's content: accepted ⇒ the header hash is the block hash of record
    `n mod 8192` of the epoch (the zero hash beyond the end of the chain) — a header at ANOTHER POSITION or ANOTHER
    HEADER at this position is accepted only with an exhibited collision / pre-image -/
theorem accepted_is_recorded_premerge (q : Quirks) (t : Tables) (n : Nat) (hash : Hash) (sib : Option (List Hash))
    (recs : List (Hash × Hash))
    (hok : validatePre H q t n hash sib = .ok)
    (hT : t.epochs[n / epochSize]? = some (epochRoot H recs)) :
    (recAt recs (n % epochSize)).1 = hash ∨ Collision H ∨ LeafPre H (epochTree recs) :=
  sound_premerge_records H q t n hash sib recs hok hT

/-- merge … Capella: accepted ⇒ the proof's beacon block root is committed at the SLOT's position of the SLOT's
    batch, and the header hash is committed at gindex 3228 of that beacon block (14 and 11 siblings are what the
    fixed-size container decodes to, `Hp.decodePM_lengths`) -/
theorem accepted_is_committed_bellatrix (q : Quirks) (t : Tables) (hash : Hash) (p : PM)
    (hok : validateBell H q t hash p = .ok) (hbl : p.bproof.length = 14) (T B : Tree)
    (hT : t.roots[p.slot / epochSize]? = some (root H T)) (hB : root H B = p.broot) :
    ((∃ tb, nodeAt T 14 (bellIndex p.slot) = some tb ∧ root H tb = p.broot) ∨ Collision H ∨ LeafPre H T) ∧
    ((∃ te, nodeAt B p.eproof.length gindexBellatrix = some te ∧ root H te = hash) ∨ Collision H ∨ LeafPre H B) :=
  sound_bellatrix H q t hash p hok hbl T B hT hB

/-- Capella and Deneb (`g` = 3228 / 6444): the same against the summary of batch `(slot − capella_start) / 8192` -/
theorem accepted_is_committed_summaries (g : Nat) (t : Tables) (hash : Hash) (p : PM)
    (hok : validateSumm H g t hash p = .ok) (hbl : p.bproof.length = 13) (T B : Tree)
    (hT : lookupSummary t p.slot = some (root H T)) (hB : root H B = p.broot) :
    ((∃ tb, nodeAt T 13 (summIndex p.slot) = some tb ∧ root H tb = p.broot) ∨ Collision H ∨ LeafPre H T) ∧
    ((∃ te, nodeAt B p.eproof.length g = some te ∧ root H te = hash) ∨ Collision H ∨ LeafPre H B) :=
  sound_summaries H g t hash p hok hbl T B hT hB

/-! ## "a proof for another header … or with any altered sibling, never does" -/

/-- pre-merge: at one block number at most ONE pair (header hash, 15 siblings) is accepted; a second accepted pair
    that differs in the hash or in any sibling yields an explicit collision -/
theorem altered_sibling_or_header_premerge (q q' : Quirks) (t : Tables) (n : Nat) (hash hash' : Hash) (s s' : List Hash)
    (h1 : validatePre H q t n hash (some s) = .ok) (h2 : validatePre H q' t n hash' (some s') = .ok) :
    (hash = hash' ∧ s = s') ∨ Collision H :=
  unique_premerge H q q' t n hash hash' s s' h1 h2

/-- merge … Capella: at one slot at most one (header hash, beacon block root, 14 + 11 siblings) is accepted -/
theorem altered_sibling_or_header_bellatrix (q q' : Quirks) (t : Tables) (hash hash' : Hash) (p p' : PM)
    (hs : p.slot = p'.slot) (hb : p.bproof.length = 14) (hb' : p'.bproof.length = 14)
    (he : p.eproof.length = p'.eproof.length)
    (h1 : validateBell H q t hash p = .ok) (h2 : validateBell H q' t hash' p' = .ok) :
    (hash = hash' ∧ p.broot = p'.broot ∧ p.bproof = p'.bproof ∧ p.eproof = p'.eproof) ∨ Collision H :=
  unique_bellatrix H q q' t hash hash' p p' hs hb hb' he h1 h2

/-- Capella / Deneb: likewise -/
theorem altered_sibling_or_header_summaries (g : Nat) (t : Tables) (hash hash' : Hash) (p p' : PM)
    (hs : p.slot = p'.slot) (hb : p.bproof.length = 13) (hb' : p'.bproof.length = 13)
    (he : p.eproof.length = p'.eproof.length)
    (h1 : validateSumm H g t hash p = .ok) (h2 : validateSumm H g t hash' p' = .ok) :
    (hash = hash' ∧ p.broot = p'.broot ∧ p.bproof = p'.bproof ∧ p.eproof = p'.eproof) ∨ Collision H :=
  unique_summaries H g t hash hash' p p' hs hb hb' he h1 h2

/-! ## "a proof for another … era … never does" -/

/-- era dispatch: the block number alone selects the era (merge / shanghai / cancun constants) -/
theorem era_of_number (n : Nat) :
    (n < mergeBlock → eraOf n = .preMerge) ∧
    (mergeBlock ≤ n → n < shanghaiBlock → eraOf n = .bellatrix) ∧
    (shanghaiBlock ≤ n → n < cancunBlock → eraOf n = .capella) ∧
    (cancunBlock ≤ n → eraOf n = .deneb) :=
  ⟨eraOf_pre n, eraOf_bell n, eraOf_cap n, eraOf_deneb n⟩

/-- an accepted proof has exactly the byte size of the era of the header's number (480 / 840 / 808 / 840): a proof
    laid out for an era of another size is rejected whatever it contains -/
theorem wrong_era_size_rejected (q : Quirks) (t : Tables) (n : Nat) (hash : Hash) (proof : List Nat)
    (hok : validate H q t n hash proof = .ok) : proof.length = eraSize (eraOf n) :=
  ok_size H q t n hash proof hok

/-- … and the verdict depends on no accumulator but the one of the number's era (Bellatrix and Deneb containers
    have the same size; they are kept apart by the Merkle checks against different accumulators, to which the
    `accepted_is_committed_*` theorems apply) -/
theorem wrong_era_other_tables_irrelevant (q : Quirks) (t t' : Tables) (n : Nat) (hash : Hash) (proof : List Nat)
    (h : match eraOf n with
         | .preMerge => t.epochs = t'.epochs
         | .bellatrix => t.roots = t'.roots
         | _ => t.summaries = t'.summaries ∧ t.oracle = t'.oracle) :
    validate H q t n hash proof = validate H q t' n hash proof :=
  era_own_table H q t t' n hash proof h

/-! ## "out-of-range positions yield an error" -/

/-- ideal model, pre-merge: an epoch index beyond the accumulator is an error -/
theorem out_of_range_error_premerge (t : Tables) (n : Nat) (hash : Hash) (sib : Option (List Hash))
    (h : t.epochs.length ≤ n / epochSize) : validatePre H ideal t n hash sib = .errOther :=
  oor_premerge_ideal H t n hash sib h

/-- ideal model, merge … Capella: a slot whose batch lies beyond `historical_roots` is an error -/
theorem out_of_range_error_bellatrix (t : Tables) (hash : Hash) (p : PM)
    (h : t.roots.length ≤ p.slot / epochSize) : (validateBell H ideal t hash p).isErr = true :=
  oor_bellatrix_ideal H t hash p h

/-- Capella / Deneb: a summary index beyond the cache that the oracle does not supply either is an error;
    the index is `(slot − capella_start) / 8192` from the first Capella slot on, and a slot BEFORE it wraps
    around to an index ≥ 2^50 -/
theorem out_of_range_error_summaries (g : Nat) (t : Tables) (hash : Hash) (p : PM)
    (hc : t.summaries.length ≤ summaryIndex p.slot)
    (ho : match t.oracle with | .answers l => l.length ≤ summaryIndex p.slot | _ => True) :
    (validateSumm H g t hash p).isErr = true ∧
    (∀ slot, capellaStart ≤ slot → slot < 2 ^ 64 → summaryIndex slot = (slot - capellaStart) / epochSize) ∧
    (∀ slot, slot < capellaStart → 2 ^ 50 ≤ summaryIndex slot) :=
  ⟨oor_summaries H g t hash p hc ho, summaryIndex_capella, summaryIndex_wrap⟩

/-- the ideal model never panics, on any tables, number, hash and proof bytes -/
theorem never_panics_ideal (t : Tables) (n : Nat) (hash : Hash) (proof : List Nat) :
    validate H ideal t n hash proof ≠ .panic :=
  ideal_never_panics H t n hash proof

/-- NEGATIVE result for the code as it is (validation/header_validator.go, `HistoricalRoots[historicalRootIndex]`):
    for EVERY header hash, EVERY 11 execution siblings and EVERY slot beyond the table, claiming the folded value
    as beacon block root makes the validator panic — the sender needs no knowledge of any committed data -/
theorem roots_unchecked_breaks_C03 (t : Tables) (hash : Hash) (ep bp : List Hash) (slot : Nat)
    (h : t.roots.length ≤ slot / epochSize) :
    validateBell H asIs t hash (mkPM bp (fold H hash ep gindexBellatrix) ep slot) = .panic :=
  roots_unchecked_panics H t hash (mkPM bp (fold H hash ep gindexBellatrix) ep slot) rfl h

/-- likewise `HistoricalEpochs[epochIndex]` (reachable only with an accumulator shorter than the embedded one) -/
theorem epochs_unchecked_breaks_C03 (t : Tables) (n : Nat) (hash : Hash) (sib : Option (List Hash))
    (h : t.epochs.length ≤ n / epochSize) : validatePre H asIs t n hash sib = .panic :=
  epochs_unchecked_panics H t n hash sib h

/-! ## index arithmetic -/

/-- 3228 and 6444 are the generalized indices of `block_hash` (BeaconBlock → body → execution payload), the record
    index formula is the generalized index of record `r`'s block hash under the mixed-in length, ⌊log2⌋ = 15 is the
    proof length fastssz demands, and the verifier reads indices modulo 2^depth -/
theorem gindex_facts :
    (3228 = ((1 * 8 + 4) * 16 + 9) * 16 + 12 ∧ 3228 / 2 ^ 11 = 1 ∧ 3228 % 2 ^ 11 = 1180) ∧
    (6444 = ((1 * 8 + 4) * 16 + 9) * 32 + 12 ∧ 6444 / 2 ^ 12 = 1 ∧ 6444 % 2 ^ 12 = 2348) ∧
    (∀ r, r < 8192 → 8192 * 2 * 2 + r * 2 = ((1 * 2 + 0) * 8192 + r) * 2 + 0 ∧ (8192 * 2 * 2 + r * 2) / 2 ^ 15 = 1) ∧
    (∀ n, Nat.log2 (preIndex n) = 15) ∧
    (∀ v br idx, fold H v br idx = fold H v br (idx % 2 ^ br.length)) :=
  ⟨gindex_bellatrix, gindex_deneb, gindex_premerge, preIndex_log2, fold_mod H⟩

/-! ## the hypotheses are satisfiable (toy hash `a + 2·b + 1`, small structures) -/

def toyH (a b : Nat) : Nat := a + 2 * b + 1

/-- a two-record chain in a one-entry table: the honest proof of record 1 exists, has 15 siblings and verifies -/
example : ∃ sib, proveEpoch toyH [(11, 1), (22, 3)] 1 = some sib ∧ sib.length = 15 ∧
    validatePre toyH ideal ⟨[epochRoot toyH [(11, 1), (22, 3)]], [], [], .absent⟩ 1 22 (some sib) = .ok :=
  honest_verifies_premerge toyH ideal _ [(11, 1), (22, 3)] 1 22 3 rfl rfl

/-- a batch tree and a block tree of exactly the depths the Bellatrix validator walks -/
example : ∃ bp ep, bp.length = 14 ∧ ep.length = 11 ∧
    validateBell toyH ideal ⟨[], [root toyH (build 14 (fun i => .leaf (if i = 5 then root toyH (build 11 (fun j => .leaf j)) else i)))], [], .absent⟩
      (3228 % 2 ^ 11) (mkPM bp (root toyH (build 11 (fun j => .leaf j))) ep 5) = .ok := by
  obtain ⟨bp, ep, _, _, h3, h4, h5⟩ := honest_verifies_bellatrix toyH ideal
    ⟨[], [root toyH (build 14 (fun i => .leaf (if i = 5 then root toyH (build 11 (fun j => .leaf j)) else i)))], [], .absent⟩
    (build 14 (fun i => .leaf (if i = 5 then root toyH (build 11 (fun j => .leaf j)) else i)))
    (build 11 (fun j => .leaf j))
    (.leaf (root toyH (build 11 (fun j => .leaf j)))) (.leaf (3228 % 2 ^ 11)) 5 (3228 % 2 ^ 11)
    rfl
    (by rw [nodeAt_mod]; exact nodeAt_build 14 _ 5 (by decide))
    rfl
    (by rw [nodeAt_mod]; exact nodeAt_build 11 _ (3228 % 2 ^ 11) (by decide))
    rfl
  exact ⟨bp, ep, h3, h4, h5⟩

/-- the panic witness is concrete: empty `historical_roots`, slot 0 -/
example : validateBell toyH asIs ⟨[], [], [], .absent⟩ 7 (mkPM [] (fold toyH 7 [] gindexBellatrix) [] 0) = .panic :=
  roots_unchecked_breaks_C03 toyH _ 7 [] [] 0 (by decide)

/-- … while the ideal model answers with an error there -/
example : (validateBell toyH ideal ⟨[], [], [], .absent⟩ 7 (mkPM [] (fold toyH 7 [] gindexBellatrix) [] 0)).isErr = true :=
  out_of_range_error_bellatrix toyH _ 7 _ (by decide)

#print axioms honest_verifies_premerge
#print axioms honest_verifies_premerge_top
#print axioms honest_verifies_bellatrix
#print axioms honest_verifies_capella
#print axioms honest_verifies_deneb
#print axioms accepted_is_committed_premerge
#print axioms accepted_is_recorded_premerge
#print axioms accepted_is_committed_bellatrix
#print axioms accepted_is_committed_summaries
#print axioms altered_sibling_or_header_premerge
#print axioms altered_sibling_or_header_bellatrix
#print axioms altered_sibling_or_header_summaries
#print axioms era_of_number
#print axioms wrong_era_size_rejected
#print axioms wrong_era_other_tables_irrelevant
#print axioms out_of_range_error_premerge
#print axioms out_of_range_error_bellatrix
#print axioms out_of_range_error_summaries
#print axioms never_panics_ideal
#print axioms roots_unchecked_breaks_C03
#print axioms epochs_unchecked_breaks_C03
#print axioms gindex_facts
end Props.C03
