import Shisui.Versions
import Shisui.FramingUtp
/-! # C19 — Peers settle on the highest common protocol version and frame data accordingly

Model: `Vs.biggestCommon` (`findBiggestSameNumber`), `Vs.getOrStore`/`Vs.run` (`getOrStoreHighestVersion` with the
versions cache as state; `quirk = true` stores the value even when the computation failed — what the code does, pinned by
`TestGetOrStoreHighestVersion`). Theorems are about `quirk = false`; the driver checks the code against `quirk = true`. -/
namespace Props.C19
open Vs

/-- "each side computes the highest version present in both …, an error … when there is no common version" -/
theorem highest_common (a b : List Nat) :
    (∀ m, biggestCommon a b = some m → m ∈ a ∧ m ∈ b ∧ ∀ v, v ∈ a → v ∈ b → v ≤ m) ∧
    (biggestCommon a b = none → ∀ v, v ∈ a → v ∉ b) := Vs.biggestCommon_spec a b

/-- "For any two nodes advertising version sets, each side computes" the same version -/
theorem symmetric (a b : List Nat) (m : Nat) (h : biggestCommon a b = some m) : biggestCommon b a = some m :=
  Vs.biggestCommon_symm a b m h

/-- "its own first-listed (base) version when the peer advertises none" -/
theorem none_advertised_base (own : List Nat) :
    (getOrStore false own none none).2 = .ok (own.headD 0) := rfl

/-- "an error and no transfer when there is no common version" — for EVERY call history (ideal model) -/
theorem no_common_always_error (own pv : List Nat) (h : biggestCommon own pv = none) (n : Nat) :
    ∀ r ∈ run false own (some pv) n none, r = .err := Vs.no_common_always_error own pv h n

/-- once a version was computed every later call returns the same one (the cache is consistent) -/
theorem cached_is_stable (q : Bool) (own : List Nat) (peer : Option (List Nat)) (v : Nat) :
    getOrStore q own (some v) peer = (some v, .ok v) := rfl

/-- "and uses it for both the ACCEPT encoding and the uTP content framing": with the same version on both sides the
    uTP framing of a large FINDCONTENT transfer is inverted exactly -/
theorem framing_agrees (a b : List Nat) (m : Nat) (d : List Nat) (hd : d.length < 2 ^ 32)
    (h : biggestCommon a b = some m) :
    ∃ m', biggestCommon b a = some m' ∧ Fr.utpDec m' (Fr.utpEnc m d) = some d :=
  ⟨m, Vs.biggestCommon_symm a b m h, Fr.utp_roundtrip m d hd⟩

/-- NEGATIVE result for the code as it is: no common version, the second call succeeds with version 0 -/
theorem cached_error_breaks_C19 :
    biggestCommon [0] [3] = none ∧ run true [0] (some [3]) 2 none = [.err, .ok 0] := Vs.quirk_cached_error_breaks_C19

example : biggestCommon [0, 1] [1, 2] = some 1 := by decide
example : biggestCommon [0, 1] [2] = none := by decide

#print axioms highest_common
#print axioms symmetric
#print axioms none_advertised_base
#print axioms no_common_always_error
#print axioms cached_is_stable
#print axioms framing_agrees
#print axioms cached_error_breaks_C19
end Props.C19
