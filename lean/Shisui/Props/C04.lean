import Shisui.Store.Refinement
import Shisui.Store.Reach
import Shisui.Store.RefinementReopen
/-! # C04 — Stored content is returned intact and nothing else is

Model with values: `Sv` (`storage/pebble/storage.go:181-232`), refinement to "value of the last accepted put per id".
Pruning is abstracted by `PruneOf` (keeps a prefix of the ascending key list — which prefix is C05's business).
Values are immutable in the model; on the Go side "the bytes handed back stay unchanged" is a statement about buffer
lifetime and is carried by the fact `get_copies` (extractor) plus the retained-slice re-comparison of the harness. -/
namespace Props.C04
open Sv

/-- "a refused put changes nothing observable" -/
theorem refused_put_noop (prune : Store → Store) (s : Store) (k : Nat) (v : Val)
    (h : (put prune s k v).2 = .insufficientRadius) : (put prune s k v).1 = s := Sv.put_refused_noop prune s k v h

/-- "Once a put is accepted, a get for the same content id returns exactly the bytes that were put until that item is
    pruned", and other ids are unaffected (or pruned) -/
theorem get_after_put (prune : Store → Store) (hp : ∀ s, PruneOf s (prune s)) (s : Store) (k : Nat) (v : Val)
    (h : (put prune s k v).2 = .ok) :
    (get k (put prune s k v).1.items = some v ∨ get k (put prune s k v).1.items = none) ∧
    (∀ k', k' ≠ k → get k' (put prune s k v).1.items = get k' s.items ∨ get k' (put prune s k v).1.items = none) :=
  Sv.put_ok_get prune hp s k v h

/-- "a get never returns bytes that were not put under that id": refinement step; by induction every reachable
    store refines the ghost map of last accepted puts -/
theorem get_only_put (prune : Store → Store) (hp : ∀ s, PruneOf s (prune s)) (s : Store) (spec : Spec)
    (k : Nat) (v : Val) (href : Refines s spec) :
    Refines (put prune s k v).1
      (if (put prune s k v).2 = .ok then (fun k' => if k' = k then some v else spec k') else spec) :=
  Sv.put_refines prune hp s spec k v href

/-- the ghost map after a history -/
def specRun (prune : Store → Store) : Store → Spec → List (Nat × Val) → Store × Spec
  | s, sp, [] => (s, sp)
  | s, sp, (k, v) :: ops =>
    specRun prune (put prune s k v).1
      (if (put prune s k v).2 = .ok then (fun k' => if k' = k then some v else sp k') else sp) ops

/-- every put/overwrite history: whatever `get` returns afterwards is the latest accepted put for that id -/
theorem get_only_put_reachable (prune : Store → Store) (hp : ∀ s, PruneOf s (prune s)) (ops : List (Nat × Val)) :
    ∀ (s : Store) (sp : Spec), Refines s sp → Refines (specRun prune s sp ops).1 (specRun prune s sp ops).2 := by
  induction ops with
  | nil => intro s sp h; exact h
  | cons op ops ih =>
    intro s sp h
    obtain ⟨k, v⟩ := op
    exact ih _ _ (Sv.put_refines prune hp s sp k v h)

/-- ids that differ (even in a single bit) have different keys: xor with the node id is injective -/
theorem xor_key_injective (node a b : Nat) (h : a ^^^ node = b ^^^ node) : a = b := by
  have := congrArg (· ^^^ node) h
  simpa [Nat.xor_assoc] using this

/-- the key of an id is the reserved counter key 0 only for the node id itself -/
theorem key_zero_iff (node a : Nat) : a ^^^ node = 0 ↔ a = node := by
  constructor
  · intro h; exact xor_key_injective node a node (by rw [h, Nat.xor_self])
  · intro h; rw [h, Nat.xor_self]

/-- "…and across close and reopen": an id returns after close + reopen (with any capacity) what it returned before, or
    nothing if the open pruned it; a store that fits its capacity comes back item for item -/
theorem get_across_reopen (prune : Store → Store) (hp : ∀ s, PruneOf s (prune s)) (maxR : Nat) (s : Store) (cap k : Nat) :
    (get k (reopen prune maxR s cap).items = get k s.items ∨ get k (reopen prune maxR s cap).items = none) ∧
    (s.tracked ≤ cap → (reopen prune maxR s cap).items = s.items) :=
  ⟨Sv.reopen_get prune hp maxR s cap k, Sv.reopen_same prune maxR s cap⟩

/-- every history mixing puts, overwrites and close/reopen with any capacities: whatever `get` returns is the value of the
    latest accepted put for that id -/
theorem get_only_put_with_reopen (prune : Store → Store) (hp : ∀ s, PruneOf s (prune s)) (maxR : Nat) (ops : List Op)
    (s : Store) (sp : Spec) (h : Refines s sp) :
    Refines (runOps prune maxR s sp ops).1 (runOps prune maxR s sp ops).2 := Sv.runOps_refines prune hp maxR ops s sp h

example : get 5 (reopen id 100 { items := ins 5 [1, 2] [], tracked := 34, radius := 100, cap := 50 } 40).items = some [1, 2] := by
  decide

example : get 5 (ins 5 [1, 2] (ins 5 [9] [])) = some [1, 2] := by decide   -- overwrite returns the new bytes
example : get 5 (ins 5 [] []) = some [] := by decide                        -- empty value

#print axioms get_across_reopen
#print axioms get_only_put_with_reopen
#print axioms refused_put_noop
#print axioms get_after_put
#print axioms get_only_put
#print axioms get_only_put_reachable
#print axioms xor_key_injective
#print axioms key_zero_iff
end Props.C04
