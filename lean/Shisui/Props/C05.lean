import Shisui.Store.Reach
import Shisui.Store.Concurrent
import Shisui.Store.ConcPrune
/-! # C05 — Storage stays within capacity by pruning farthest-first

Model: `St.Store`/`St.put`/`St.prune` (`storage/pebble/storage.go:195-306`), keys = big-endian value of
xor(contentId, nodeId) (pebble's bytewise order on 32-byte keys, `Be.lexLt_iff`), item size = 32 + value length,
`expectSize = cap/20`. `StX.exec_ideal_put` shows the executable model run by the driver (byte-order switch off)
is this model. Sequential histories: proved for every history. Concurrent puts: the statement is FALSE of the
code (and of the step model); the negation is proved with an explicit schedule (`concurrent_counter_underreports`),
which the check replays against the real store through the yield hook — recorded as a known finding. -/
namespace Props.C05
open St

/-- "Every put that would leave the store over its configured capacity frees, in the same call, at least 5% of
    the capacity (or everything it holds)" -/
theorem prune_frees (s : Store) (h : Inv s) :
    (prune s).items = [] ∨ s.cap / 20 ≤ s.tracked - (prune s).tracked := St.prune_frees s h

/-- "with items no larger than 5% of the capacity the bytes held never exceed the capacity once puts have
    returned" — every sequential history from an empty store -/
theorem bounded_sequential (cap : Nat) (ops : List (Nat × Nat))
    (h : ∀ op ∈ ops, 0 < op.1 ∧ 32 + op.2 ≤ cap / 20) : held (run (init cap) ops).items ≤ cap :=
  St.run_bounded ops (init cap) h (init_inv cap) (by simp [init, held])

/-- "the usage figure the store keeps and persists never under-reports what is held" — every sequential history
    (the persisted figure equals the kept one: both are written in the same batch) -/
theorem counter_ge_held_sequential (cap : Nat) (ops : List (Nat × Nat)) (h : ∀ op ∈ ops, 0 < op.1) :
    held (run (init cap) ops).items ≤ (run (init cap) ops).tracked :=
  (St.run_inv ops (init cap) h (init_inv cap)).1.acct

/-- "Each pruning pass removes a farthest-first prefix: every item it drops is at least as far from the node id as
    every item it keeps." -/
theorem farthest_first (s : Store) (h : Inv s) :
    ∃ dropped, s.items = (prune s).items ++ dropped ∧ ∀ k ∈ (prune s).items, ∀ d ∈ dropped, k.1 < d.1 :=
  St.prune_farthest_first s h

/-- the driver's executable model (switch off) is `St.put` -/
theorem exec_model_is_ideal (s : StX.Store) (x : StX.Item) :
    StX.proj (StX.put false s x).1 = (St.put (StX.proj s) x.be x.len).1 := (StX.exec_ideal_put s x).1

/-- NEGATIVE result (concurrent clause): two puts interleaved as ⟨Add A⟩⟨Add B⟩⟨commit B⟩⟨commit A⟩ leave a persisted
    figure (1032) below the bytes held (6064). Finite witness, `decide`. -/
theorem concurrent_counter_underreports :
    let r := Conc.run [.add 0, .add 1, .commit 1, .commit 0] Conc.twoPuts
    r.persisted < Conc.held r.items := by decide

/-! ## Schedules with a pruning put (`ConcP`: Add · commit item · Load · Store · commit deletes) -/

/-- what a lock around the two sections would give: counter = persisted = held after every sequence of puts and pruning
    passes (the justification of the repair recorded with the known finding) -/
theorem atomic_sections_keep_counter (gs : List ConcP.G) (s : ConcP.Sh) (h : ConcP.Inv s) :
    ConcP.Inv (gs.foldl ConcP.gstep s) := ConcP.atomic_sections_keep_counter gs s h

/-- a thread's events run uninterrupted in today's order ARE the two sections -/
theorem today_is_sections (s : ConcP.Sh) (th : ConcP.Th) (hf : th.freed ≤ s.held + th.len) (hi : ConcP.Inv s) :
    ConcP.run s [th] (ConcP.today 0) = ConcP.gstep (ConcP.gstep s (.put th.len)) (.prune th.freed) :=
  ConcP.today_is_sections s th hf hi

/-- today's order: a put that arrives while another one waits in the fsync of its pruning batch loses nothing, whatever the
    sizes (the forced schedule `concprune` of the run) -/
theorem sync_window_safe_today (s : ConcP.Sh) (a b : ConcP.Th) (hi : ConcP.Inv s) :
    ConcP.Inv (ConcP.run s [a, b] (ConcP.today 0 ++ [.add 1, .commitItem 1])) := ConcP.sync_window_safe_today s a b hi

/-- NEGATIVE: with the counter's Store moved behind the commit the same window loses put B's bytes for good -/
theorem store_after_commit_underreports :
    let a : ConcP.Th := { len := 10032, freed := 50160 }
    let b : ConcP.Th := { len := 10032, freed := 50160 }
    let s : ConcP.Sh := { tracked := 993168, held := 993168, persisted := 993168 }
    let r := ConcP.run s [a, b] [.add 0, .commitItem 0, .pLoad 0, .pCommit 0, .add 1, .commitItem 1, .pStore 0, .pLoad 1, .pStore 1, .pCommit 1]
    r.persisted + 10032 = r.held ∧ r.tracked + 10032 = r.held := ConcP.store_after_commit_breaks_C05

-- non-vacuity: a reachable state that has pruned once
example : (run (init 1000) [(5, 400), (9, 400), (7, 100), (3, 50)]).items = [(3, 50), (5, 400), (7, 100)] := by decide
example : Inv (run (init 1000) [(5, 400), (9, 400), (7, 100), (3, 50)]) :=
  (St.run_inv _ _ (by decide) (init_inv 1000)).1

#print axioms prune_frees
#print axioms bounded_sequential
#print axioms counter_ge_held_sequential
#print axioms farthest_first
#print axioms exec_model_is_ideal
#print axioms concurrent_counter_underreports
#print axioms atomic_sections_keep_counter
#print axioms today_is_sections
#print axioms sync_window_safe_today
#print axioms store_after_commit_underreports
end Props.C05
