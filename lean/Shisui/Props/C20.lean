import Shisui.GossipRel
import Shisui.RadiusCache
/-! # C20 — Gossip goes to at most eight covered peers and never back to the source

Model: `Gs.Allowed` — what `GossipAndReturnPeers` may return, as a relation (the farther covered nodes are shuffled):
among the ≤ 32 closest table nodes, those whose cached radius covers the content (in-range test of C06, a parameter) and
that are not the source; the first four in order, plus `min 4` of the others. `Rc` — the radius cache under ping/pong
reports. `handlePing` processes a ping's payload in a fresh goroutine, so two pings of one peer may be applied out of
order: the model takes the processing order as given (partial). -/
namespace Props.C20

/-- "Gossip offers the batch to at most 8 of the 32 table nodes nearest the content id: the 4 closest whose last reported
    radius covers it plus up to 4 among the other covered ones, never the node the content came from and never a node
    whose radius is unknown." -/
theorem gossip_rule (c : Gs.Ctx) (result : List Nat) (h : Gs.Allowed c result) :
    result.length ≤ 8 ∧
    (∀ n ∈ result, n ∈ c.closest ∧ (∃ r, c.radius n = some r ∧ c.covers n r = true) ∧ c.src ≠ some n) ∧
    (∀ n ∈ (Gs.covered c).take 4, n ∈ result) := Gs.gossip_rule c result h

/-- the Boolean relation the driver evaluates on every REAL gossip result implies the same clauses -/
theorem checked_relation_rule (c : Gs.Ctx) (result : List Nat) (h : Gs.allowedB c result = true) :
    result.length ≤ 8 ∧
    (∀ n ∈ result, n ∈ c.closest ∧ (∃ r, c.radius n = some r ∧ c.covers n r = true) ∧ c.src ≠ some n) ∧
    (∀ n ∈ (Gs.covered c).take 4, n ∈ result) := Gs.allowedB_rule c result h

/-- "The radius used for a node is the one it most recently reported in a ping or pong, in any supported payload type." -/
theorem radius_is_last_report (c : Option Nat) (rs : List Rc.Report) :
    Rc.run c rs = match (rs.filter Rc.applies).getLast? with
      | some r => some r.radius
      | none => c := Rc.radius_is_last_report c rs

/-- a node that never was a table member when it reported keeps an unknown radius, hence is never a gossip target -/
theorem unknown_never_target (rs : List Rc.Report) (h : ∀ r ∈ rs, r.member = false)
    (c : Gs.Ctx) (n : Nat) (hc : c.radius n = Rc.run none rs) (result : List Nat) (ha : Gs.Allowed c result) :
    n ∉ result := by
  intro hn
  obtain ⟨_, h2, _⟩ := Gs.gossip_rule c result ha
  obtain ⟨_, ⟨r, hr, _⟩, _⟩ := h2 n hn
  rw [hc, Rc.unknown_stays_unknown rs h] at hr
  cases hr

/-- with the by-hand entry point: the cache holds what the LAST setting event set - an applying report its radius, an AddEnr by
    which the node entered the table the maximum; AddEnr for a node already in the table sets nothing -/
theorem radius_is_last_setter (c : Option Nat) (es : List Rc.Ev) :
    Rc.runEv c es = match (es.filterMap Rc.sets).getLast? with
      | some v => some v
      | none => c := Rc.runEv_last_setter c es

theorem addEnr_known_keeps_radius (c : Option Nat) : Rc.stepEv c (.addEnr false) = c := rfl

example : Rc.runEv none [.addEnr true, .report ⟨true, true, true, 5⟩, .addEnr false] = some 5 := by decide

example : Rc.run none [⟨true, true, true, 5⟩, ⟨true, false, true, 9⟩, ⟨true, true, true, 7⟩, ⟨false, true, true, 1⟩] = some 7 := by decide

#print axioms gossip_rule
#print axioms checked_relation_rule
#print axioms radius_is_last_report
#print axioms unknown_never_target
#print axioms radius_is_last_setter
#print axioms addEnr_known_keeps_radius
end Props.C20
