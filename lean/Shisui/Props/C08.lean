import Shisui.FindContent
import Shisui.PacketSize
import Shisui.FramingUtp
import Shisui.Versions
/-! # C08 — FINDCONTENT yields exactly the stored bytes, else closer peers, in one packet

Model: the three-way split of `handleFindContent` on `len(content) ≤ maxPacketSize − talkRespOverhead − 2`; `Fc.enrsReply`
(closest 32 in any log-distance-sorted order, requester removed, `truncateNodes`); `Fr.utpEnc/utpDec` for the stream framing;
`Pk.talkRespSize` for the datagram size. uTP itself (reliable ordered stream) is trusted. -/
namespace Props.C08

/-- the reply kinds -/
inductive Reply where
  | raw (c : List Nat)
  | connId
  | enrs (l : List Fc.N)

/-- `handleFindContent` decision -/
def reply (stored : Option (List Nat)) (sorted : List Fc.N) (asker : Nat) : Reply :=
  match stored with
  | none => .enrs (Fc.enrsReply sorted asker (1280 - 103 - 2))
  | some c => if c.length ≤ 1280 - 103 - 2 then .raw c else .connId

/-- "When a peer asks for a key the node holds, the bytes the peer ends up with — inline when they fit one packet —
    equal the stored bytes" -/
theorem found_small (c : List Nat) (sorted : List Fc.N) (asker : Nat) (h : c.length ≤ 1175) :
    reply (some c) sorted asker = .raw c := by
  simp [reply, h]

/-- "otherwise over the uTP stream the reply announces — equal the stored bytes, for either protocol version": both sides
    negotiate the same version `m` (C19), and the framing is inverted exactly -/
theorem found_large (c : List Nat) (sorted : List Fc.N) (asker : Nat) (a b : List Nat) (m : Nat)
    (h : 1175 < c.length) (hc : c.length < 2 ^ 32) (hv : Vs.biggestCommon a b = some m) :
    reply (some c) sorted asker = .connId ∧
    ∃ m', Vs.biggestCommon b a = some m' ∧ Fr.utpDec m' (Fr.utpEnc m c) = some c := by
  refine ⟨by simp [reply]; omega, m, Vs.biggestCommon_symm a b m hv, Fr.utp_roundtrip m c hc⟩

/-- "When the node does not hold it, the reply lists only records from its routing table in order of non-decreasing
    log-distance to the content id and never the asker's own record" (for any sorted ordering the unstable sort produced) -/
theorem not_found (sorted : List Fc.N) (asker : Nat) (hs : Fc.SortedLog sorted) (hnd : (sorted.map (·.id)).Nodup) :
    ∃ l, reply none sorted asker = .enrs l ∧ l.Sublist sorted ∧ Fc.SortedLog l ∧ (∀ n ∈ l, n.id ≠ asker) ∧ Fc.size l ≤ 1175 := by
  obtain ⟨h1, h2, h3, h4⟩ := Fc.enrs_rule sorted asker (1280 - 103 - 2) hs hnd
  exact ⟨_, rfl, h1, h2, h3, h4⟩

/-- "every reply fits in one discv5 packet": CONTENT message = 1 id byte + 1 selector + body ≤ 1177 bytes in all three
    branches, hence a datagram ≤ 1280 for every request id of at most 8 bytes -/
theorem one_packet (stored : Option (List Nat)) (sorted : List Fc.N) (asker reqId : Nat) (s1 s2 : Bool) (hr : reqId ≤ 8)
    (hs : Fc.SortedLog sorted) (hnd : (sorted.map (·.id)).Nodup) :
    let body := match reply stored sorted asker with
      | .raw c => c.length
      | .connId => 2
      | .enrs l => Fc.size l
    Pk.talkRespSize reqId (2 + body) s1 s2 ≤ 1280 := by
  simp only
  have key : ∀ body, body ≤ 1175 → Pk.talkRespSize reqId (2 + body) s1 s2 ≤ 1280 := by
    intro body hb
    have := Pk.fits reqId (2 + body) s1 s2 hr (by simp only [Pk.maxPacketSize, Pk.talkRespOverhead]; omega)
    simpa [Pk.maxPacketSize] using this
  cases stored with
  | none =>
    obtain ⟨_, _, _, h4⟩ := Fc.enrs_rule sorted asker (1280 - 103 - 2) hs hnd
    exact key _ h4
  | some c =>
    by_cases hc : c.length ≤ 1280 - 103 - 2
    · simp only [reply, hc, if_true]; exact key _ hc
    · simp only [reply, hc, if_false]; exact key 2 (by omega)

example : reply (some [1, 2, 3]) [] 0 = .raw [1, 2, 3] := found_small _ _ _ (by decide)


#print axioms found_small
#print axioms found_large
#print axioms not_found
#print axioms one_packet
end Props.C08
