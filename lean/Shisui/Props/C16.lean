import Shisui.Permits
/-! # C16 — Transfer slots are bounded and always given back

Model: `Pm` — a pool of `limit` slots (`semaphore.Weighted`), offers that hold a release-once permit (`ReleasePermit`,
CompareAndSwap on the released flag), and any interleaving of: acquisition, an offer leaving through an exit that does or
does not call `Release`, and repeated `Release` calls. The inbound and the outbound pool are two independent instances.
Which exits of `offer`, `processOffer`, the `handleOffer` goroutine and the gossip loop release is established on the real
code by scripted outcomes (correspondence), not statically. -/
namespace Props.C16
open Pm

/-- "At no time are more inbound or more outbound offer transfers in progress than the configured limit" — every
    interleaving of acquisitions, exits and repeated releases -/
theorem held_le_limit (limit : Nat) (steps : List Step) :
    holding (steps.foldl step { avail := limit, offers := [] }).offers ≤ limit := Pm.held_le_limit limit steps

/-- conservation: free + held = limit in every reachable state (a slot is returned at most once, never invented) -/
theorem conservation (limit : Nat) (steps : List Step) :
    (steps.foldl step { avail := limit, offers := [] }).avail +
      holding (steps.foldl step { avail := limit, offers := [] }).offers = limit := Pm.inv_reachable limit steps

/-- "Once activity has ceased the full number of slots is available again": if every offer has released its permit -/
theorem quiescent_full (limit : Nat) (steps : List Step)
    (h : ∀ o ∈ (steps.foldl step { avail := limit, offers := [] }).offers, o.released = true) :
    (steps.foldl step { avail := limit, offers := [] }).avail = limit := Pm.quiescent_full limit steps h

example : holding ([Step.acquire, .acquire, .exit 0 true, .again 0, .acquire].foldl step { avail := 2, offers := [] }).offers = 2 := by decide

#print axioms held_le_limit
#print axioms conservation
#print axioms quiescent_full
end Props.C16
