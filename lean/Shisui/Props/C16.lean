import Shisui.Permits
import Shisui.PermitsFlow
/-! # C16 — Transfer slots are bounded and always given back

Model: `Pm` — a pool of `limit` slots (`semaphore.Weighted`), offers that hold a release-once permit (`ReleasePermit`,
CompareAndSwap on the released flag), and any interleaving of: acquisition, an offer leaving through an exit that does or
does not call `Release`, and repeated `Release` calls. The inbound and the outbound pool are two independent instances.
Which exits of `offer`, `processOffer`, the `handleOffer` goroutine and the gossip loop release is established on the real
code by scripted outcomes (correspondence), not statically. -/
namespace Props.C16
open Pm

/-- "At no time are more inbound or more outbound offer transfers in progress than the configured limit" — every
    interleaving of acquisitions, exits and repeated releases -/
theorem held_le_limit (limit : Nat) (steps : List Step) :
    holding (steps.foldl step { avail := limit, offers := [] }).offers ≤ limit := Pm.held_le_limit limit steps

/-- conservation: free + held = limit in every reachable state (a slot is returned at most once, never invented) -/
theorem conservation (limit : Nat) (steps : List Step) :
    (steps.foldl step { avail := limit, offers := [] }).avail +
      holding (steps.foldl step { avail := limit, offers := [] }).offers = limit := Pm.inv_reachable limit steps

/-- "Once activity has ceased the full number of slots is available again": if every offer has released its permit -/
theorem quiescent_full (limit : Nat) (steps : List Step)
    (h : ∀ o ∈ (steps.foldl step { avail := limit, offers := [] }).offers, o.released = true) :
    (steps.foldl step { avail := limit, offers := [] }).avail = limit := Pm.quiescent_full limit steps h

example : holding ([Step.acquire, .acquire, .exit 0 true, .again 0, .acquire].foldl step { avail := 2, offers := [] }).offers = 2 := by decide

/-- the exit table: every way an outbound offer that holds a slot can end makes at least one `Release()` call -/
theorem every_outbound_exit_releases (o : Out) : outCalls o ≠ [] := Pm.outCalls_ne_nil o

/-- the exit table: every way an inbound transfer that holds a slot can end makes at least one `Release()` call -/
theorem every_inbound_exit_releases (o : In) : inCalls o ≠ [] := Pm.inCalls_ne_nil o

/-- "every slot taken for an offer is returned exactly once whatever the outcome": a path that makes one or more `Release()`
    calls on a held permit frees exactly one slot (the deferred call after the explicit one changes nothing) -/
theorem slot_returned_exactly_once (s : Sys) (i : Nat) (calls : List Call) (hne : calls ≠ []) (hi : i < s.offers.length)
    (hheld : isReleased s i = false) :
    ((stepsOfCalls i calls).foldl step s).avail = s.avail + 1 := Pm.path_returns_once s i calls hne hi hheld

/-- "Once activity has ceased the full number of slots is available again", without assuming the final state: in every
    interleaving in which each offer that took a slot later made at least one `Release()` call, all slots are free -/
theorem quiescent_full_of_exit_table (limit : Nat) (steps : List Step)
    (h : ∀ i, i < (run limit steps).offers.length →
      ∃ pre c post, steps = pre ++ c :: post ∧ i < (run limit pre).offers.length ∧ callsRelease i c = true) :
    (run limit steps).avail = limit := Pm.all_paths_release_full limit steps h

/-- a released permit stays released whatever happens next -/
theorem released_is_stable (s : Sys) (steps : List Step) (j : Nat) (h : isReleased s j = true) :
    isReleased (steps.foldl step s) j = true := Pm.released_mono_run s steps j h

example : (run 1 ([Step.acquire] ++ stepsOfCalls 0 (inCalls (.readDone true)) ++ [Step.acquire])).avail = 0 := by decide

#print axioms held_le_limit
#print axioms conservation
#print axioms quiescent_full
#print axioms every_outbound_exit_releases
#print axioms every_inbound_exit_releases
#print axioms slot_returned_exactly_once
#print axioms quiescent_full_of_exit_table
#print axioms released_is_stable
end Props.C16
