import Shisui.Trie.ValidateThm
import Shisui.Trie.RlpThm
import Shisui.Trie.Witness
/-! # C13 — State content is accepted only with a hash-linked proof down to the state root

Model (`Shisui/Trie/Validate.lean`, namespace `Spv`): `validateContent` = `StateValidator.ValidateContent`
(state/validation.go:28-109), `validateTrieProof` (111-151), `validateNode` = `validateNodeTrieProof`,
`validateAccountState` (153-171), `put` = state `Storage.Put` (state/storage.go:47-169); below it
`Tr.traverseT` = `TraverseTrieNode` (state/trie/utils.go:20-53) with the kind of the hit (child reference / leaf
value) made explicit and Go's unchecked indexing as `panic`, `Tr.decodeNode` = `DecodeTrieNode`, `Tr.decodeAccount` =
`types.FullAccount`. All theorems hold for EVERY environment `E` (any hash function, any node decoder, any account
decoder): nothing is assumed about Keccak-256; "hash-linked" is an equation between hashes, so soundness is up to
collisions by construction.

Specification: `Spv.Chain E q root path proof last rest` — the first node hashes to `root`, each following node hashes to
what the previous one REFERS to along the path (`Tr.ReachT … .ref`), `last` is the final node, `rest` the unused path.

`Spv.ideal` (all switches off) is what the property demands; `Spv.asImplemented` is what the code does today. The driver
compares the code with the model exactly and judges every answer of the code against the ideal specification. -/
namespace Props.C13
open Spv Tr Spv.Witness

/-- In the ideal model a link is a genuine child reference: "each following node is the child the previous one
    references along the key's path". -/
theorem link_is_child_reference (E : Env) (e : Bytes) (path : Path) (r : Bytes) (rest : Path) :
    LinkRel E ideal e path r rest ↔ ∃ n, E.decodeN e = some n ∧ ReachT n path .ref r rest :=
  Spv.linkRel_ideal E e path r rest

/-- `TraverseTrieNode` as modelled returns a child reference exactly for a genuine walk to a `hashNode` (branch
    steps by one nibble, extension steps by its whole key) and a value exactly at a leaf whose key is all that is
    left of the path. -/
theorem traversal_is_walk (n : Node) (path : Path) (k : Hit) (b : Bytes) (rest : Path) :
    traverseT n path = .ok k b rest ↔ ReachT n path k b rest := Tr.traverseT_iff n path k b rest

/-- the tagged traversal is the traversal function that was compared with the Go code, with the tag forgotten -/
theorem traversal_forgets_to_calibrated (n : Node) (path : Path) : (traverseT n path).erase = traverse n path :=
  Tr.traverseT_erase n path

/-- "its proof starts at the state root …, each following node is the child the previous one references along the
    key's path": `validateTrieProof` succeeds exactly on hash-linked chains. -/
theorem proof_accepted_iff_linked (E : Env) (root : Bytes) (path : Path) (proof : List Bytes) (last : Bytes) (rest : Path) :
    Spv.validateTrieProof E ideal root path proof = .ok (last, rest) ↔ Chain E ideal root path proof last rest :=
  Spv.validateTrieProof_iff E ideal root path proof last rest

/-- "A trie-node … item is accepted only if its proof starts at the state root of the header it names, each following
    node is the child the previous one references along the key's path, the path is fully consumed, and the final node
    … equals the hash in the key" — account trie node, both directions. -/
theorem account_node_accepted_iff (E : Env) (oracle : Bytes → Option Bytes) (it : Item) (ht : it.keyType = 0x20) :
    validateContent E ideal oracle it = .ok () ↔
      decodes it = true ∧ ∃ root, oracle it.blockHash = some root ∧
        ∃ last, Chain E ideal root it.path it.proof last [] ∧ E.hashOf last = it.nodeHash :=
  Spv.validateContent_account_iff E ideal oracle it ht

/-- the same for a contract storage trie node: the account is proven under the state root along the full address
    path down to a leaf VALUE, and the storage proof is linked under that account's storage root -/
theorem storage_node_accepted_iff (E : Env) (oracle : Bytes → Option Bytes) (it : Item) (ht : it.keyType = 0x21) :
    validateContent E ideal oracle it = .ok () ↔
      decodes it = true ∧ ∃ root, oracle it.blockHash = some root ∧
        ∃ a, ProvenAccount E ideal root it.addrHash it.acctProof a ∧
          ∃ last, Chain E ideal (fullRoot E a) it.path it.proof last [] ∧ E.hashOf last = it.nodeHash :=
  Spv.validateContent_storage_iff E ideal oracle it ht

/-- in the ideal model the proven account is the value of a LEAF whose key is exactly the rest of the address path -/
theorem proven_account_is_leaf_value (E : Env) (root addrHash : Bytes) (proof : List Bytes) (a : Account) :
    ProvenAccount E ideal root addrHash proof a ↔
      ∃ last p b, Chain E ideal root (nibblesOf addrHash) proof last p ∧
        (∃ n, E.decodeN last = some n ∧ ∃ rest, ReachT n p .val b rest) ∧ E.decodeAcct b = some a :=
  Spv.provenAccount_ideal E root addrHash proof a

/-- "… or the proven account's code hash equals the hash in the key" — bytecode, both directions -/
theorem bytecode_accepted_iff (E : Env) (oracle : Bytes → Option Bytes) (it : Item) (ht : it.keyType = 0x22) :
    validateContent E ideal oracle it = .ok () ↔
      decodes it = true ∧ ∃ root, oracle it.blockHash = some root ∧
        ∃ a, ProvenAccount E ideal root it.addrHash it.acctProof a ∧ fullCodeHash E a = it.nodeHash :=
  Spv.validateContent_bytecode_iff E ideal oracle it ht

/-- "what is then stored is that final node …": an accepted trie-node item is stored, as exactly the container of the
    final proof node — the node whose hash is the key's (any switches) -/
theorem accepted_node_stored_is_final (E : Env) (q : Quirks) (it : Item) (root last : Bytes) (hd : decodes it = true)
    (ht : it.keyType ≠ 0x22) (hv : validateNode E q root it.nodeHash it.path it.proof = .ok last) :
    put E q it = .ok (container last) ∧ it.proof.getLast? = some last ∧ E.hashOf last = it.nodeHash :=
  Spv.accepted_node_stored_final E q it root last hd ht hv

/-- "… and nothing else from the proof": whatever `Put` stores for a trie-node key is the container of the LAST proof
    node and that node hashes to the key's node hash; containers of different nodes differ -/
theorem stored_node_is_last_only (E : Env) (q : Quirks) (it : Item) (s : Bytes) (ht : it.keyType ≠ 0x22)
    (h : put E q it = .ok s) :
    ∃ last, it.proof.getLast? = some last ∧ s = container last ∧ E.hashOf last = it.nodeHash ∧
      ∀ other, container other = s → other = last :=
  Spv.stored_node_last_only E q it s ht h

/-- "… or that code": whatever `Put` stores for a bytecode key is the container of the code, and the code hashes to
    the key's code hash (this is where the code itself is bound to the proven code hash) -/
theorem stored_code_is_code (E : Env) (q : Quirks) (it : Item) (s : Bytes) (ht : it.keyType = 0x22)
    (h : put E q it = .ok s) : s = container it.code ∧ E.hashOf it.code = it.nodeHash :=
  Spv.put_code_ok E q it s ht h

/-- bytecode accepted by validation AND stored: the code hashes to the code hash of the account proven under the
    state root -/
theorem accepted_bytecode_bound_to_account (E : Env) (oracle : Bytes → Option Bytes) (it : Item) (s : Bytes)
    (ht : it.keyType = 0x22) (hv : validateContent E ideal oracle it = .ok ()) (hp : put E ideal it = .ok s) :
    ∃ root a, oracle it.blockHash = some root ∧ ProvenAccount E ideal root it.addrHash it.acctProof a ∧
      E.hashOf it.code = fullCodeHash E a ∧ s = container it.code :=
  Spv.accepted_bytecode_bound E oracle it s ht hv hp

/-! ## "Wrong root, broken link, wrong path, surplus or missing nodes are all rejected with an error." -/

/-- no outcome but ok / error in the ideal model: rejection is always an error, never a panic -/
theorem rejected_with_error (E : Env) (oracle : Bytes → Option Bytes) (it : Item)
    (h : validateContent E ideal oracle it ≠ .ok ()) : validateContent E ideal oracle it = .err :=
  Spv.rejected_is_err E oracle it h

theorem put_rejected_with_error (E : Env) (it : Item) (h : ∀ s, put E ideal it ≠ .ok s) : put E ideal it = .err :=
  Spv.put_rejected_is_err E it h

/-- unknown header / header source error -/
theorem unknown_block_rejected (E : Env) (q : Quirks) (oracle : Bytes → Option Bytes) (it : Item)
    (h : oracle it.blockHash = none) : validateContent E q oracle it = .err :=
  Spv.unknown_block_err E q oracle it h

/-- wrong root -/
theorem wrong_root_rejected (E : Env) (q : Quirks) (root : Bytes) (path : Path) (first : Bytes) (more : List Bytes)
    (h : E.hashOf first ≠ root) : Spv.validateTrieProof E q root path (first :: more) = .err :=
  Spv.wrong_root_err E q root path first more h

/-- missing nodes: the empty proof -/
theorem empty_proof_rejected (E : Env) (q : Quirks) (root : Bytes) (path : Path) :
    Spv.validateTrieProof E q root path [] = .err := rfl

/-- broken link: the proof is linked up to `a`, `a` refers to `r` along the path, the next node does not hash to `r` -/
theorem broken_link_rejected (E : Env) (root : Bytes) (path : Path) (pre : List Bytes) (a b : Bytes) (post : List Bytes)
    (p : Path) (r : Bytes) (p' : Path) (hpre : Spv.validateTrieProof E ideal root path (pre ++ [a]) = .ok (a, p))
    (hl : link E ideal a p = .ok (r, p')) (hb : E.hashOf b ≠ r) :
    Spv.validateTrieProof E ideal root path (pre ++ a :: b :: post) = .err :=
  Spv.broken_link_err E root path pre a b post p r p' hpre hl hb

/-- wrong path: the proof is linked up to `a`, but walking `a` along what is left of the key's path reaches no child
    reference (mismatching extension or leaf key, absent child, path exhausted) -/
theorem wrong_path_rejected (E : Env) (root : Bytes) (path : Path) (pre : List Bytes) (a b : Bytes) (post : List Bytes)
    (p : Path) (hpre : Spv.validateTrieProof E ideal root path (pre ++ [a]) = .ok (a, p))
    (hl : ∀ r p', ¬ LinkRel E ideal a p r p') :
    Spv.validateTrieProof E ideal root path (pre ++ a :: b :: post) = .err :=
  Spv.wrong_path_err E root path pre a b post p hpre hl

/-- the path is not fully consumed -/
theorem path_not_consumed_rejected (E : Env) (q : Quirks) (root nodeHash : Bytes) (path : Path) (proof : List Bytes)
    (last : Bytes) (rest : Path) (h : Spv.validateTrieProof E q root path proof = .ok (last, rest)) (hr : rest ≠ []) :
    validateNode E q root nodeHash path proof = .err :=
  Spv.path_not_consumed_err E q root nodeHash path proof last rest h hr

/-- the final node does not hash to the hash in the key -/
theorem final_hash_mismatch_rejected (E : Env) (q : Quirks) (root nodeHash : Bytes) (path : Path) (proof : List Bytes)
    (last : Bytes) (h : Spv.validateTrieProof E q root path proof = .ok (last, [])) (hh : E.hashOf last ≠ nodeHash) :
    validateNode E q root nodeHash path proof = .err :=
  Spv.final_hash_mismatch_err E q root nodeHash path proof last h hh

/-- surplus nodes: when the proof is linked and the path used up, every longer proof is rejected -/
theorem surplus_nodes_rejected (E : Env) (hE : TopLevel E) (root nodeHash : Bytes) (path : Path) (proof : List Bytes)
    (last : Bytes) (h : Spv.validateTrieProof E ideal root path proof = .ok (last, [])) (extra : Bytes) (more : List Bytes) :
    validateNode E ideal root nodeHash path (proof ++ extra :: more) = .err :=
  Spv.surplus_err E hE root nodeHash path proof last h extra more

/-- missing nodes: an accepted proof without its final node is rejected (part of the path stays unused) -/
theorem missing_last_node_rejected (E : Env) (hE : TopLevel E) (root : Bytes) (path : Path) (init : List Bytes)
    (last : Bytes) (hi : init ≠ []) (h : Spv.validateTrieProof E ideal root path (init ++ [last]) = .ok (last, []))
    (nodeHash : Bytes) : validateNode E ideal root nodeHash path init = .err :=
  Spv.missing_last_err E hE root path init last hi h nodeHash

/-- the real node decoder satisfies the side condition of the two theorems above, with any hash function -/
theorem real_decoder_top_level (h : Bytes → Bytes) (da : Bytes → Option Account) (er ec : Bytes) :
    TopLevel { hashOf := h, decodeN := decodeNode, decodeAcct := da, emptyRoot := er, emptyCode := ec } :=
  fun e n hd => Tr.decodeNode_top e n hd

/-! ## The code as it is: switches on -/

/-- what the code accepts today, exactly (the model the driver compares the code with) -/
theorem as_implemented_account_node_iff (E : Env) (oracle : Bytes → Option Bytes) (it : Item) (ht : it.keyType = 0x20) :
    validateContent E asImplemented oracle it = .ok () ↔
      decodes it = true ∧ ∃ root, oracle it.blockHash = some root ∧
        ∃ last, Chain E asImplemented root it.path it.proof last [] ∧ E.hashOf last = it.nodeHash :=
  Spv.validateContent_account_iff E asImplemented oracle it ht

example : validateContent toy ideal toyOracle honestItem = .ok () := by
  simp [validateContent, decodes, proofFits, honestItem, toyOracle, validateNode, Spv.validateTrieProof, chainGo, link, toy,
    traverseT, unit]
example : put toy ideal honestItem = .ok (container [1]) := by
  simp [put, decodes, proofFits, honestItem, toy]
-- the hypotheses of the rejection theorems are met by concrete proofs (toy environment: identity hash)
example : validateNode toy ideal [4] [1] [3] ([[4], [1]] ++ [9] :: []) = .err :=
  surplus_nodes_rejected toy toy_topLevel [4] [1] [3] [[4], [1]] [1] honest_chain [9] []
example : validateNode toy ideal [4] [4] [3] [[4]] = .err :=
  missing_last_node_rejected toy toy_topLevel [4] [3] [[4]] [1] (by simp) honest_chain [4]
example : Spv.validateTrieProof toy ideal [4] [3] ([] ++ [4] :: [9] :: []) = .err :=
  broken_link_rejected toy [4] [3] [] [4] [9] [] [3] [1] [] (by simp [Spv.validateTrieProof, chainGo, toy])
    (by simp [link, toy, traverseT]) (by simp [toy])
example : Spv.validateTrieProof toy ideal [0] [3] [[4], [1]] = .err :=
  wrong_root_rejected toy ideal [0] [3] [4] [[1]] (by simp [toy])
example : validateNode toy ideal [4] [4] [3, 0] [[4]] = .err :=
  path_not_consumed_rejected toy ideal [4] [4] [3, 0] [[4]] [4] [3, 0] (by simp [Spv.validateTrieProof, chainGo, toy]) (by simp)
example : Chain toy ideal [4] [3] [[4], [1]] [1] [] :=
  .cons _ _ _ [1] [] _ _ _ _ rfl ⟨_, rfl, .inl (.full _ 3 [] (.hash [1]) _ _ _ rfl (.hash _ _))⟩ (.single _ _ _ rfl)

/-- NEGATIVE (switch `panics`): a proof whose first node is an extension, asked with nothing left of the path, makes
    the code's loop index out of range — a panic, where the property demands an error. Any extension node of any real
    trie serves (key path = path to the extension, proof = genuine nodes + one surplus node). Third conjunct: the short
    node with an empty key (`c2 80 80`). -/
theorem panics_breaks_C13 :
    Spv.validateTrieProof toy asImplemented [2] [] [[2], [3]] = .panic ∧
    Spv.validateTrieProof toy ideal [2] [] [[2], [3]] = .err ∧
    Spv.validateTrieProof toy asImplemented [7] [5] [[7], [3]] = .panic := by
  refine ⟨?_, ?_, ?_⟩ <;>
    simp [Spv.validateTrieProof, chainGo, link, toy, Spv.Witness.ext_nil, Tr.traverseT_empty_key, asImplemented, ideal]

/-- NEGATIVE (switch `leafAsRef`): leaf [1] holds the VALUE [2]; the code takes it for the reference to the next proof
    node, continues through the foreign node [2] and accepts node [3], which no node of the trie under root [1]
    references. The ideal model rejects. -/
theorem leaf_value_as_link_breaks_C13 :
    validateNode toy asImplemented [1] [3] [5, 6] [[1], [2], [3]] = .ok [3] ∧
    validateNode toy ideal [1] [3] [5, 6] [[1], [2], [3]] = .err := by
  refine ⟨?_, ?_⟩ <;>
    simp [validateNode, Spv.validateTrieProof, chainGo, link, toy, Spv.Witness.leaf_ok, Spv.Witness.ext_ok, asImplemented, ideal]

/-- NEGATIVE (switch `leafAsRef`, other direction): the account proof stops at branch [4]; the code takes the child
    REFERENCE [1] for the account's RLP (and ignores the unused rest of the address path). The ideal model rejects. -/
theorem child_ref_as_account_breaks_C13 :
    validateAccountState toy asImplemented [4] [0x30] [[4]] =
      .ok { nonce := 0, balance := 0, root := [], codeHash := [] } ∧
    validateAccountState toy ideal [4] [0x30] [[4]] = .err := by
  refine ⟨?_, ?_⟩ <;>
    simp [validateAccountState, Spv.validateTrieProof, chainGo, accountBytes, nibblesOf, toy, Spv.Witness.branch_ok,
      asImplemented, ideal]

/-- NEGATIVE (switch `putUnguarded`): `Put` of a trie-node item with an empty proof panics instead of failing -/
theorem put_unguarded_breaks_C13 :
    put toy asImplemented { honestItem with proof := [] } = .panic ∧
    put toy ideal { honestItem with proof := [] } = .err := by
  refine ⟨?_, ?_⟩ <;> simp [put, decodes, proofFits, honestItem, asImplemented, ideal]

/-- the byte-level witness of the first finding for the REAL decoder: `c2 80 80` is a short node with an empty key -/
example : decodeNode [0xc2, 0x80, 0x80] = some (.short [] .empty) := by rfl
example : traverseT (.short [] .empty) [1, 2] = .panic := by simp [traverseT]

#print axioms link_is_child_reference
#print axioms traversal_is_walk
#print axioms traversal_forgets_to_calibrated
#print axioms proof_accepted_iff_linked
#print axioms account_node_accepted_iff
#print axioms storage_node_accepted_iff
#print axioms proven_account_is_leaf_value
#print axioms bytecode_accepted_iff
#print axioms accepted_node_stored_is_final
#print axioms stored_node_is_last_only
#print axioms stored_code_is_code
#print axioms accepted_bytecode_bound_to_account
#print axioms rejected_with_error
#print axioms put_rejected_with_error
#print axioms unknown_block_rejected
#print axioms wrong_root_rejected
#print axioms empty_proof_rejected
#print axioms broken_link_rejected
#print axioms wrong_path_rejected
#print axioms path_not_consumed_rejected
#print axioms final_hash_mismatch_rejected
#print axioms surplus_nodes_rejected
#print axioms missing_last_node_rejected
#print axioms real_decoder_top_level
#print axioms as_implemented_account_node_iff
#print axioms panics_breaks_C13
#print axioms leaf_value_as_link_breaks_C13
#print axioms child_ref_as_account_breaks_C13
#print axioms put_unguarded_breaks_C13
end Props.C13
