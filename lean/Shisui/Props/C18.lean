import Shisui.Table.Policy2
/-! # C18 — Table entries are displaced only by failed liveness, never by newcomers
Same model as C07 (`Tb`). -/
namespace Props.C18
open Tb

/-- "When a bucket is full a newly seen node only enters the replacement list (most recent first, at most 10) and no
    entry is removed." -/
theorem full_bucket_newcomer (t : Table) (i : Nat) (r : Rec) :
    ((addReplacement t i r).bkt i).entries = (t.bkt i).entries ∧
    (((addReplacement t i r).bkt i).reps = (t.bkt i).reps ∨
     (∃ wn, wn.r = r ∧ (t.bkt i).reps.length < maxReps ∧ ((addReplacement t i r).bkt i).reps = wn :: (t.bkt i).reps) ∨
     (∃ wn, wn.r = r ∧ ¬ (t.bkt i).reps.length < maxReps ∧
        ((addReplacement t i r).bkt i).reps = wn :: (t.bkt i).reps.dropLast)) := Tb.full_bucket_newcomer t i r

/-- no addition of any kind removes an entry from any bucket -/
theorem add_never_displaces (bo : Nat → Nat) (t : Table) (r : Rec) (inb fl : Bool) (k : Nat) :
    ∀ id ∈ entryIds t k, id ∈ entryIds (handleAddNode bo t r inb fl).1 k := Tb.add_never_displaces bo t r inb fl k

/-- "An entry leaves only after failed liveness checks exhaust its credit, after five consecutive fruitless node queries
    while the bucket has at least four entries, or by explicit deletion" — for every operation from every table -/
theorem entry_leaves_only_if (bo : Nat → Nat) (t : Table) (op : Op2) (k x : Nat)
    (hx : x ∈ entryIds t k) (hgone : x ∉ entryIds (step2 bo t op) k) :
    (∃ rnd, op = .delete x rnd ∧ k = bo x) ∨
    (∃ oid rnd n, op = .revalFail x oid rnd ∧ k = bo x ∧ entryOf t k x = some n ∧ n.oid = oid ∧ n.checks / 3 = 0) ∨
    (∃ fails rnd found, op = .track x fails rnd found ∧ k = bo x ∧ fails ≥ 5 ∧ (t.bkt k).entries.length ≥ 4) :=
  Tb.entry_leaves_only_if bo t op k x hx hgone

/-- "and is then succeeded by a replacement if one exists" -/
theorem successor (t : Table) (i id rnd : Nat) (n : TNode)
    (hfind : (t.bkt i).entries.find? (fun m => m.r.id == id) = some n) (hreps : (t.bkt i).reps ≠ []) :
    ∃ rep, rep ∈ (t.bkt i).reps ∧
      ((deleteInBucket t i id rnd).bkt i).entries = (t.bkt i).entries.filter (fun m => m.r.id != id) ++ [rep] ∧
      ((deleteInBucket t i id rnd).bkt i).reps.length + 1 = (t.bkt i).reps.length := Tb.successor t i id rnd n hfind hreps

/-- "A stored record changes only to a higher sequence number (any change when the node itself contacted us), and an
    endpoint change clears its verified status." -/
theorem record_change (t : Table) (i : Nat) (nr : Rec) (inbound : Bool) (n : TNode)
    (hnd : ((t.bkt i).entries.map (·.r.id)).Nodup)
    (hfind : (t.bkt i).entries.find? (fun m => m.r.id == nr.id) = some n) :
    ∀ m ∈ ((bump t i nr inbound).1.bkt i).entries, m.r.id = nr.id →
      m.r = n.r ∨ (m.r = nr ∧ (nr.seq > n.r.seq ∨ inbound = true) ∧
                   ((nr.addr ≠ n.r.addr ∨ nr.port ≠ n.r.port) → m.live = false)) :=
  Tb.record_change t i nr inbound n hnd hfind

/-- liveness credit: failure divides by three, success adds one and verifies; neither touches the record -/
theorem credit_rule (m : TNode) : (failChecks m).checks = m.checks / 3 ∧ (failChecks m).r = m.r ∧
    (okChecks m).checks = m.checks + 1 ∧ (okChecks m).live = true ∧ (okChecks m).r = m.r := Tb.credit_rule m

#print axioms full_bucket_newcomer
#print axioms add_never_displaces
#print axioms entry_leaves_only_if
#print axioms successor
#print axioms record_change
#print axioms credit_rule
end Props.C18
