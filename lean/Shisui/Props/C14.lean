import Shisui.Ssz.WireBound
import Shisui.Ssz.BitlistValid
import Shisui.Ssz.Schemas
/-! # C14 — Wire messages round-trip and decode canonically within their limits

Property theorems only. The model is `Wire` (`Shisui/Ssz/Wire.lean`): a schema-driven SSZ codec — `Wire.Ty.encode`
is `MarshalSSZ` (`Serialize`), `Wire.Ty.decode q` is `UnmarshalSSZ` (`Deserialize`) — over the container layer
`Sz.encodeC`/`Sz.decodeC`; lemmas live in `Shisui/Ssz/Wire{Lemmas,Proofs,Ty}.lean`, the schemas of the repository's
types in `Shisui/Ssz/Schemas.lean`. Bytes are `Nat`s, `Sz.Bytes b` says every element is below 256.

`t.inLim v` = "v is an in-limit value of type t" (the declared limits: the ones the decoder enforces).
`q : Wire.Quirks` are the two decoder deviations of today's code (`Wire.asImplemented`: both on; `Wire.ideal`:
both off); `Schemas.… guard` is the third (the `size < 4` guard of the two bare lists). The general theorems hold
for EVERY schema with consistent limits and EITHER setting of the switches unless they say otherwise; the
schemas of the repository are consistent (finite table check at the end). -/
namespace Props.C14
open Wire Sz

/-- "decoding the encoding of any in-limit value yields that value": an in-limit value of a consistent schema
    encodes, and its encoding decodes to it — for the decoder as implemented and for the ideal one.
    Hypotheses: the encoding is shorter than 2^32 bytes (Go truncates offsets with `uint32(offset)`), and it
    passes the bare-list size guard (`t.guard = 0` for every type except, as implemented, `PortalReceipts` and
    `EphemeralHeaderPayload`, see `guard_zero_ideal` and `empty_bare_list_does_not_roundtrip`). -/
theorem roundtrip (q : Quirks) (t : Ty) (v : List SVal) (hc : t.consistent = true) (hl : t.inLim v = true) :
    ∃ b, t.encode v = some b ∧ (b.length < 2 ^ 32 → t.guard ≤ b.length → t.decode q b = some v) := by
  obtain ⟨b, hb⟩ := ty_encode_some t v hc hl
  refine ⟨b, hb, fun hsz hg => ?_⟩
  rw [ty_decode_encode q t v b hc hb hsz]
  simp [hg, hl]

/-- the same clause with the side conditions discharged from the schema: when the schema bounds the encoding below
    2^32 bytes (`t.bound`, true of every schema of the repository except the two block bodies and the receipts, whose
    items may be 16 / 128 MiB: `unbounded_types`) and the type has no size guard, EVERY in-limit value round-trips. -/
theorem roundtrip_bounded (q : Quirks) (t : Ty) (v : List SVal) (hc : t.consistent = true)
    (hbd : t.bound < 2 ^ 32) (hg : t.guard = 0) (hl : t.inLim v = true) :
    ∃ b, t.encode v = some b ∧ t.decode q b = some v := by
  obtain ⟨b, hb, hdec⟩ := roundtrip q t v hc hl
  have := ty_encode_bound t v b hc hl hb
  exact ⟨b, hb, hdec (by omega) (by omega)⟩

/-- "an over-limit value either fails to encode or encodes to bytes the decoder rejects" (any value that is not
    in-limit: too long, too many, wrong vector size, invalid bit list). -/
theorem overlimit (q : Quirks) (t : Ty) (v : List SVal) (hc : t.consistent = true) (hl : t.inLim v = false) :
    t.encode v = none ∨ ∃ b, t.encode v = some b ∧ (b.length < 2 ^ 32 → t.decode q b = none) := by
  cases he : t.encode v with
  | none => exact Or.inl rfl
  | some b =>
    refine Or.inr ⟨b, rfl, fun hsz => ?_⟩
    rw [ty_decode_encode q t v b hc he hsz]
    simp [hl]

/-- "The declared limits … are enforced when decoding": whatever any decoder of the family accepts, from any
    byte string, is an in-limit value (and has the shape of the type). -/
theorem limits_enforced (q : Quirks) (t : Ty) (b : List Nat) (v : List SVal) (hb : Bytes b)
    (h : t.decode q b = some v) : t.inLim v = true ∧ t.shape v = true :=
  ⟨(ty_decode_sound q t b v hb h).1, ty_inLim_shape t v (ty_decode_sound q t b v hb h).1⟩

/-- "any byte string that decodes successfully re-encodes to the same bytes" — for the ideal codec, every schema. -/
theorem canonical (t : Ty) (b : List Nat) (v : List SVal) (hc : t.consistent = true) (hb : Bytes b)
    (h : t.decode ideal b = some v) : t.encode v = some b :=
  (ty_decode_sound ideal t b v hb h).2 hc (Or.inl rfl) (Or.inl rfl)

/-- a type the two decoder deviations cannot touch: not decoded by fastssz's offset-table list decoder, and not a
    ztyp container of fixed fields only -/
def holeFree (t : Ty) : Bool := !t.fastDyn && !t.fixedZ

/-- the same clause AS IMPLEMENTED, at full strength, for every type that is neither decoded by fastssz's list
    decoder nor a fixed-size ztyp container: 38 of the 49 schemas (Ping, Pong, FindNodes, FindContent, Content,
    ConnectionId, Accept, AcceptV1, the variable-size ping payloads, the proofs and keys, all state types but one —
    `hole_free_types`; the other eleven are `not_hole_free_types`). -/
theorem canonical_as_implemented (q : Quirks) (t : Ty) (b : List Nat) (v : List SVal) (hc : t.consistent = true)
    (hf : holeFree t = true) (hb : Bytes b) (h : t.decode q b = some v) : t.encode v = some b := by
  simp only [holeFree, Bool.and_eq_true, Bool.not_eq_true'] at hf
  exact (ty_decode_sound q t b v hb h).2 hc (Or.inr hf.1) (Or.inr hf.2)

/-- the same clause as implemented for the remaining types (Nodes, Enrs, Offer, the bodies and receipts, the
    fixed-size ping payloads): PARTIAL. Proved: the deviations only add acceptances (`ty_decode_mono`), and every
    byte string the ideal decoder also accepts re-encodes to itself. Missing (and false today, see the three
    witnesses below): the byte strings only the implemented decoder accepts. -/
theorem canonical_partial (q : Quirks) (t : Ty) (b : List Nat) (v : List SVal) (hc : t.consistent = true)
    (hb : Bytes b) (h : t.decode q b = some v) (hi : (t.decode ideal b).isSome = true) : t.encode v = some b := by
  cases hd : t.decode ideal b with
  | none => simp [hd] at hi
  | some v' =>
    have := ty_decode_mono q t b v' hb hc hd
    rw [h] at this
    simp only [Option.some.injEq] at this
    subst this
    exact canonical t b v hc hb hd

/-- the deviations never remove an acceptance nor change a decoded value -/
theorem implemented_extends_ideal (q : Quirks) (t : Ty) (b : List Nat) (v : List SVal) (hc : t.consistent = true)
    (hb : Bytes b) (h : t.decode ideal b = some v) : t.decode q b = some v :=
  ty_decode_mono q t b v hb hc h

/-! ## the declared limits of the wire messages, read off the decoders
    ("64 keys per offer, 2048-byte keys and ENRs, 32 ENRs, 256 distances, 1100-byte ping payload,
    2-byte connection id") -/

theorem offer_limits (q : Quirks) (b : List Nat) (v : List SVal) (hb : Bytes b)
    (h : Schemas.offer.decode q b = some v) :
    ∃ keys, v = [.dyn keys] ∧ keys.length ≤ 64 ∧ ∀ k ∈ keys, k.length ≤ 2048 := by
  have hl := (limits_enforced q _ b v hb h).1
  obtain ⟨x, r, rfl, h1, h2⟩ := all2_cons _ _ _ _ hl
  obtain rfl := all2_nil _ _ h2
  obtain ⟨xs, rfl, a, c⟩ := inLim_dyn _ _ _ _ x h1
  exact ⟨xs, rfl, a, c⟩

theorem nodes_limits (q : Quirks) (b : List Nat) (v : List SVal) (hb : Bytes b)
    (h : Schemas.nodes.decode q b = some v) :
    ∃ total enrs, v = [.uint 1 total, .dyn enrs] ∧ total < 256 ∧ enrs.length ≤ 32 ∧ ∀ e ∈ enrs, e.length ≤ 2048 := by
  have hl := (limits_enforced q _ b v hb h).1
  obtain ⟨x, r, rfl, h1, h2⟩ := all2_cons _ _ _ _ hl
  obtain ⟨y, r', rfl, h3, h4⟩ := all2_cons _ _ _ _ h2
  obtain rfl := all2_nil _ _ h4
  obtain ⟨t, rfl, ht⟩ := inLim_uint _ x h1
  obtain ⟨xs, rfl, a, c⟩ := inLim_dyn _ _ _ _ y h3
  exact ⟨t, xs, rfl, by simpa using ht, a, c⟩

theorem enrs_limits (q : Quirks) (b : List Nat) (v : List SVal) (hb : Bytes b)
    (h : Schemas.enrs.decode q b = some v) :
    ∃ enrs, v = [.dyn enrs] ∧ enrs.length ≤ 32 ∧ ∀ e ∈ enrs, e.length ≤ 2048 := by
  have hl := (limits_enforced q _ b v hb h).1
  obtain ⟨x, r, rfl, h1, h2⟩ := all2_cons _ _ _ _ hl
  obtain rfl := all2_nil _ _ h2
  obtain ⟨xs, rfl, a, c⟩ := inLim_dyn _ _ _ _ x h1
  exact ⟨xs, rfl, a, c⟩

theorem findNodes_limits (q : Quirks) (b : List Nat) (v : List SVal) (hb : Bytes b)
    (h : Schemas.findNodes.decode q b = some v) :
    ∃ ds, v = [.vec ds] ∧ ds.length ≤ 256 ∧ ∀ d ∈ ds, d.length = 2 := by
  have hl := (limits_enforced q _ b v hb h).1
  obtain ⟨x, r, rfl, h1, h2⟩ := all2_cons _ _ _ _ hl
  obtain rfl := all2_nil _ _ h2
  obtain ⟨xs, rfl, a, c⟩ := inLim_vec _ _ _ x h1
  exact ⟨xs, rfl, a, c⟩

theorem ping_limits (q : Quirks) (b : List Nat) (v : List SVal) (hb : Bytes b)
    (h : Schemas.ping.decode q b = some v) :
    ∃ seq ty payload, v = [.uint 8 seq, .uint 2 ty, .bytes payload] ∧ seq < 2 ^ 64 ∧ ty < 2 ^ 16 ∧
      payload.length ≤ 1100 := by
  have hl := (limits_enforced q _ b v hb h).1
  obtain ⟨x, r, rfl, h1, h2⟩ := all2_cons _ _ _ _ hl
  obtain ⟨y, r', rfl, h3, h4⟩ := all2_cons _ _ _ _ h2
  obtain ⟨z, r'', rfl, h5, h6⟩ := all2_cons _ _ _ _ h4
  obtain rfl := all2_nil _ _ h6
  obtain ⟨s, rfl, hs⟩ := inLim_uint _ x h1
  obtain ⟨t, rfl, ht⟩ := inLim_uint _ y h3
  obtain ⟨p, rfl, hp⟩ := inLim_bytes _ _ z h5
  exact ⟨s, t, p, rfl, by simpa using hs, by simpa using ht, hp⟩

/-- PONG has PING's schema -/
theorem pong_limits (q : Quirks) (b : List Nat) (v : List SVal) (hb : Bytes b)
    (h : Schemas.pong.decode q b = some v) :
    ∃ seq ty payload, v = [.uint 8 seq, .uint 2 ty, .bytes payload] ∧ seq < 2 ^ 64 ∧ ty < 2 ^ 16 ∧
      payload.length ≤ 1100 := ping_limits q b v hb h

theorem findContent_limits (q : Quirks) (b : List Nat) (v : List SVal) (hb : Bytes b)
    (h : Schemas.findContent.decode q b = some v) : ∃ key, v = [.bytes key] ∧ key.length ≤ 2048 := by
  have hl := (limits_enforced q _ b v hb h).1
  obtain ⟨x, r, rfl, h1, h2⟩ := all2_cons _ _ _ _ hl
  obtain rfl := all2_nil _ _ h2
  obtain ⟨p, rfl, hp⟩ := inLim_bytes _ _ x h1
  exact ⟨p, rfl, hp⟩

theorem content_limits (q : Quirks) (b : List Nat) (v : List SVal) (hb : Bytes b)
    (h : Schemas.content.decode q b = some v) : ∃ c, v = [.bytes c] ∧ c.length ≤ 2048 := by
  have hl := (limits_enforced q _ b v hb h).1
  obtain ⟨x, r, rfl, h1, h2⟩ := all2_cons _ _ _ _ hl
  obtain rfl := all2_nil _ _ h2
  obtain ⟨p, rfl, hp⟩ := inLim_bytes _ _ x h1
  exact ⟨p, rfl, hp⟩

theorem connectionId_limits (q : Quirks) (b : List Nat) (v : List SVal) (hb : Bytes b)
    (h : Schemas.connectionId.decode q b = some v) : ∃ id, v = [.fix id] ∧ id.length = 2 := by
  have hl := (limits_enforced q _ b v hb h).1
  obtain ⟨x, r, rfl, h1, h2⟩ := all2_cons _ _ _ _ hl
  obtain rfl := all2_nil _ _ h2
  obtain ⟨p, rfl, hp⟩ := inLim_fix _ x h1
  exact ⟨p, rfl, hp⟩

/-- ACCEPT (v0): 2-byte connection id and a valid bit list of at most 64 verdict bits (at most 9 bytes) -/
theorem accept_limits (q : Quirks) (b : List Nat) (v : List SVal) (hb : Bytes b)
    (h : Schemas.accept.decode q b = some v) :
    ∃ id bits, v = [.fix id, .bits bits] ∧ id.length = 2 ∧ validBits 64 bits = true ∧ bits.length ≤ 9 := by
  have hl := (limits_enforced q _ b v hb h).1
  obtain ⟨x, r, rfl, h1, h2⟩ := all2_cons _ _ _ _ hl
  obtain ⟨y, r', rfl, h3, h4⟩ := all2_cons _ _ _ _ h2
  obtain rfl := all2_nil _ _ h4
  obtain ⟨i, rfl, hi⟩ := inLim_fix _ x h1
  obtain ⟨bs, rfl, hv⟩ := inLim_bits _ _ y h3
  exact ⟨i, bs, rfl, hi, hv, validBits_len 64 bs hv⟩

/-- ACCEPT (v0) carries one verdict bit per offered key: go-bitfield's image of the verdict list `bits`
    (`Bl.encode`: bits, sentinel, padding) is an in-limit `ContentKeys` value exactly when there are at most 64
    verdicts — "64 keys per offer" on the reply side — and it reads back as `bits`. -/
theorem accept_bitlist (id : List Nat) (hid : id.length = 2) (bits : List Bool) :
    Schemas.accept.inLim [.fix id, .bits (Bl.encode bits)] = decide (bits.length ≤ 64) ∧
    Bl.decode (Bl.encode bits) = some bits := by
  refine ⟨?_, Bl.decode_encode bits⟩
  have := validBits_encode bits.length bits 64 (by omega)
  simp [Schemas.accept, Ty.inLim, Ty.slots, all2, inLim, hid, this]

/-- ACCEPT (v1): 2-byte connection id and at most 64 one-byte verdicts -/
theorem acceptV1_limits (q : Quirks) (b : List Nat) (v : List SVal) (hb : Bytes b)
    (h : Schemas.acceptV1.decode q b = some v) :
    ∃ id codes, v = [.fix id, .vec codes] ∧ id.length = 2 ∧ codes.length ≤ 64 ∧ ∀ c ∈ codes, c.length = 1 := by
  have hl := (limits_enforced q _ b v hb h).1
  obtain ⟨x, r, rfl, h1, h2⟩ := all2_cons _ _ _ _ hl
  obtain ⟨y, r', rfl, h3, h4⟩ := all2_cons _ _ _ _ h2
  obtain rfl := all2_nil _ _ h4
  obtain ⟨i, rfl, hi⟩ := inLim_fix _ x h1
  obtain ⟨xs, rfl, a, c⟩ := inLim_vec _ _ _ y h3
  exact ⟨i, xs, rfl, hi, a, c⟩

/-- every in-limit ping-extension payload fits the 1100-byte payload field of PING / PONG: wrapping it gives an
    in-limit PING (so the two layers of limits agree) -/
theorem ping_payload_fits (t : Ty)
    (ht : t ∈ [Schemas.clientInfo, Schemas.basicRadius, Schemas.historyRadius, Schemas.errorPayload])
    (v : List SVal) (b : List Nat) (hl : t.inLim v = true) (he : t.encode v = some b)
    (seq ty : Nat) (hs : seq < 2 ^ 64) (hty : ty < 2 ^ 16) :
    Schemas.ping.inLim [.uint 8 seq, .uint 2 ty, .bytes b] = true := by
  have hb : b.length ≤ 1100 := by
    simp only [List.mem_cons, List.not_mem_nil, or_false] at ht
    rcases ht with rfl | rfl | rfl | rfl
    · exact Nat.le_trans (ty_encode_bound _ v b (by decide) hl he) (by decide)
    · exact Nat.le_trans (ty_encode_bound _ v b (by decide) hl he) (by decide)
    · exact Nat.le_trans (ty_encode_bound _ v b (by decide) hl he) (by decide)
    · exact Nat.le_trans (ty_encode_bound _ v b (by decide) hl he) (by decide)
  have e8 : (256 : Nat) ^ 8 = 2 ^ 64 := by decide
  have e2 : (256 : Nat) ^ 2 = 2 ^ 16 := by decide
  simp [Schemas.ping, Ty.inLim, Ty.slots, all2, inLim, e8, e2, hs, hty, hb]

/-! ## the three deviations of today's decoders, as decided witnesses on the repository's schemas -/

/-- fastssz `UnmarshalDynamic` takes the 4 bytes `00000000` for an empty list: the 8 bytes `04000000 00000000`
    decode as an OFFER without keys, which encodes to the 4 bytes `04000000`. The ideal decoder refuses them. -/
theorem zero_offset_list_breaks_canonical :
    Schemas.offer.decode asImplemented [4, 0, 0, 0, 0, 0, 0, 0] = some [.dyn []] ∧
    Schemas.offer.encode [.dyn []] = some [4, 0, 0, 0] ∧
    Schemas.offer.decode ideal [4, 0, 0, 0, 0, 0, 0, 0] = none := by decide

/-- ztyp containers of fixed-size fields read their fields and ignore the rest: 32 bytes of radius followed by any
    byte decode as a BasicRadius payload that encodes to the first 32 bytes only. -/
theorem trailing_bytes_break_canonical :
    Schemas.basicRadius.decode asImplemented (List.replicate 32 7 ++ [9]) = some [.fix (List.replicate 32 7)] ∧
    Schemas.basicRadius.encode [.fix (List.replicate 32 7)] = some (List.replicate 32 7) ∧
    Schemas.basicRadius.decode ideal (List.replicate 32 7 ++ [9]) = none := by decide

/-- `PortalReceipts` / `EphemeralHeaderPayload` start decoding with `if size < 4 { return ErrSize }`: the empty
    list — an in-limit value — encodes to 0 bytes, which that guard refuses. Without the guard it round-trips. -/
theorem empty_bare_list_does_not_roundtrip :
    (Schemas.portalReceipts true).inLim [.dyn []] = true ∧
    (Schemas.portalReceipts true).encode [.dyn []] = some [] ∧
    (Schemas.portalReceipts true).decode asImplemented [] = none ∧
    (Schemas.ephemeralHeaderPayload true).decode asImplemented [] = none ∧
    (Schemas.portalReceipts false).decode asImplemented [] = some [.dyn []] ∧
    (Schemas.ephemeralHeaderPayload false).decode asImplemented [] = some [.dyn []] := by decide

/-! ## finite table checks on the schemas of the repository (decided, over the 49 listed schemas only) -/

/-- decoder limits within encoder limits, positive item sizes: the hypothesis `t.consistent` of the theorems -/
theorem schemas_consistent (guard : Bool) : (Schemas.all guard).all Ty.consistent = true := by
  cases guard <;> decide

/-- without the `size < 4` guard no type has a size guard of its own; with it, exactly the two bare lists -/
theorem guard_zero_ideal : (Schemas.all false).all (fun t => t.guard == 0) = true := by decide

theorem guard_as_implemented :
    ((Schemas.all true).filter (fun t => t.guard != 0)) =
      [Schemas.ephemeralHeaderPayload true, Schemas.portalReceipts true] := by decide

/-- the schemas whose own limits do not keep the encoding below 2^32 bytes (16 MiB transactions × 16384,
    128 MiB receipts × 16384): for these `roundtrip` keeps its size hypothesis; for the other 46, `roundtrip_bounded` -/
theorem unbounded_types (guard : Bool) :
    (Schemas.all guard).filter (fun t => !decide (t.bound < 2 ^ 32)) =
      [Schemas.blockBodyLegacy, Schemas.blockBodyShanghai, Schemas.portalReceipts guard] := by
  cases guard <;> decide

/-- largest encodings of the wire messages, from their schemas (PING/PONG 1114, FINDNODES 516, NODES 65669,
    FINDCONTENT 2052, CONTENT 2048, connection id 2, ENR list 65664, OFFER 131332, ACCEPT 15 / 70 bytes) -/
theorem wire_message_bounds :
    [Schemas.ping, Schemas.pong, Schemas.findNodes, Schemas.nodes, Schemas.findContent, Schemas.content,
     Schemas.connectionId, Schemas.enrs, Schemas.offer, Schemas.accept, Schemas.acceptV1].map Ty.bound =
    [1114, 1114, 516, 65669, 2052, 2048, 2, 65664, 131332, 15, 70] := by decide

/-- the types whose canonicity is proved for the decoders as implemented (`canonical_as_implemented`) -/
theorem hole_free_types :
    [Schemas.ping, Schemas.pong, Schemas.findNodes, Schemas.findContent, Schemas.content, Schemas.connectionId,
     Schemas.accept, Schemas.acceptV1, Schemas.clientInfo, Schemas.errorPayload, Schemas.capabilities,
     Schemas.proofHashesAccumulator, Schemas.proofHistoricalRoots, Schemas.proofSummariesCapella,
     Schemas.proofSummariesDeneb, Schemas.blockHeaderWithProof, Schemas.findContentEphemeralKey,
     Schemas.offerEphemeralKey, Schemas.offerEphemeralHeader, Schemas.headerRecord, Schemas.epochAccumulator,
     Schemas.sszProof, Schemas.masterAccumulator, Schemas.lcUpdateKey, Schemas.lcBootstrapKey,
     Schemas.lcFinalityKey, Schemas.lcOptimisticKey,
     Schemas.nibbles, Schemas.accountTrieNodeKey, Schemas.contractStorageTrieNodeKey, Schemas.encodedTrieNode,
     Schemas.trieNode, Schemas.trieProof, Schemas.contractByteCode, Schemas.contractBytecodeContainer,
     Schemas.accountTrieNodeWithProof, Schemas.contractStorageTrieNodeWithProof,
     Schemas.contractBytecodeWithProof].all holeFree = true := by decide

/-- … and the complement within the table: the types today's decoders are NOT canonical on -/
theorem not_hole_free_types (guard : Bool) :
    (Schemas.all guard).filter (fun t => !holeFree t) =
      [Schemas.nodes, Schemas.enrs, Schemas.offer, Schemas.basicRadius, Schemas.historyRadius,
       Schemas.ephemeralHeaderPayload guard, Schemas.blockBodyLegacy, Schemas.blockBodyShanghai,
       Schemas.portalReceipts guard, Schemas.summariesKey, Schemas.contractBytecodeKey] := by
  cases guard <;> decide

/-! ## non-vacuity: the hypotheses are met by concrete, non-trivial values -/

-- an in-limit OFFER with two keys: encodes, and the encoding decodes back (both decoders)
example : Schemas.offer.inLim [.dyn [[1, 2], [3]]] = true := by decide
example : Schemas.offer.encode [.dyn [[1, 2], [3]]] = some [4, 0, 0, 0, 8, 0, 0, 0, 10, 0, 0, 0, 1, 2, 3] := by decide
example : Schemas.offer.decode asImplemented [4, 0, 0, 0, 8, 0, 0, 0, 10, 0, 0, 0, 1, 2, 3] = some [.dyn [[1, 2], [3]]] := by
  decide
-- PING: sequence number 5, payload type 1, two payload bytes
example : Schemas.ping.encode [.uint 8 5, .uint 2 1, .bytes [10, 11]] =
    some [5, 0, 0, 0, 0, 0, 0, 0, 1, 0, 14, 0, 0, 0, 10, 11] := by decide
-- over-limit: a 3-byte connection id is refused by the encoder; 65 keys are refused by the encoder
example : Schemas.connectionId.inLim [.fix [1, 2, 3]] = false ∧ Schemas.connectionId.encode [.fix [1, 2, 3]] = none := by
  decide
example : Schemas.offer.inLim [.dyn (List.replicate 65 [])] = false ∧
    Schemas.offer.encode [.dyn (List.replicate 65 [])] = none := by decide
-- over-limit that DOES encode: a 10-byte bit list passes the encoder's 64-BYTE bound; the decoder refuses it
example : Schemas.accept.inLim [.fix [0, 0], .bits (List.replicate 10 1)] = false ∧
    (Schemas.accept.encode [.fix [0, 0], .bits (List.replicate 10 1)]).isSome = true ∧
    Schemas.accept.decode asImplemented ([0, 0, 6, 0, 0, 0] ++ List.replicate 10 1) = none := by decide
-- shifted / decreasing offsets are refused
example : Schemas.ping.decode asImplemented [5, 0, 0, 0, 0, 0, 0, 0, 1, 0, 15, 0, 0, 0, 10, 11] = none := by decide
example : Schemas.offer.decode asImplemented [4, 0, 0, 0, 8, 0, 0, 0, 7, 0, 0, 0, 1, 2, 3] = none := by decide
-- a ping payload: client info "ab", radius 32 × 0xff, capabilities [0, 1]
example : Schemas.clientInfo.decode asImplemented
    ([40, 0, 0, 0] ++ List.replicate 32 255 ++ [42, 0, 0, 0] ++ [97, 98] ++ [0, 0, 1, 0]) =
    some [.bytes [97, 98], .fix (List.replicate 32 255), .vec [[0, 0], [1, 0]]] := by decide

#print axioms roundtrip
#print axioms roundtrip_bounded
#print axioms overlimit
#print axioms limits_enforced
#print axioms canonical
#print axioms canonical_as_implemented
#print axioms canonical_partial
#print axioms implemented_extends_ideal
#print axioms offer_limits
#print axioms nodes_limits
#print axioms enrs_limits
#print axioms findNodes_limits
#print axioms ping_limits
#print axioms pong_limits
#print axioms findContent_limits
#print axioms content_limits
#print axioms connectionId_limits
#print axioms accept_limits
#print axioms accept_bitlist
#print axioms acceptV1_limits
#print axioms ping_payload_fits
#print axioms zero_offset_list_breaks_canonical
#print axioms trailing_bytes_break_canonical
#print axioms empty_bare_list_does_not_roundtrip
#print axioms schemas_consistent
#print axioms guard_zero_ideal
#print axioms guard_as_implemented
#print axioms unbounded_types
#print axioms wire_message_bounds
#print axioms hole_free_types
#print axioms not_hole_free_types
end Props.C14
