import Shisui.Store.CrashSplit
import Shisui.Store.Reopen
import Shisui.Store.Refinement
/-! # C17 — Restart and crash leave a consistent store

Model: `St.images` — the database image after every committed batch of a put history (put: {item, counter} in one batch;
prune: {deletes, counter} in a second, synced batch); a crash leaves the image after SOME prefix of the batches (assumption
on pebble: batches are atomic, at most a suffix of unsynced batches is lost — validated on every run against the real
pebble over a power-cut file system); `St.reopen` = `NewStorage` on an image. Ideal (big-endian) reading; the radius clause
inherits the little-endian known finding of C06. -/
namespace Props.C17
open St

/-- "every item it returns is byte-identical to an item that was put under that id, and the persisted usage figure is not
    below the bytes actually present": every image along every put history is consistent -/
theorem crash_images_ok (s : Store) (ops : List (Nat × Nat)) (h : Inv s) (hk : ∀ op ∈ ops, 0 < op.1) :
    ∀ d ∈ images s ops, DiskOk d := St.crash_images_ok s ops h hk

/-- the last image of a put is the state the store is in when the put returns (no crash = nothing lost) -/
theorem last_image (s : Store) (k v : Nat) (d : Disk) (h : (batchesOfPut s k v).getLast? = some d) :
    d.items = (put s k v).1.items ∧ d.counter = (put s k v).1.tracked := St.last_image s k v d h

/-- "reopening the store succeeds": on any consistent image the reopened store satisfies the full store invariant, so
    everything proved about puts (C04–C06) holds for "further operations" after the reopen -/
theorem reopen_inv (d : Disk) (cap : Nat) (h : DiskOk d) (hkeys : ∀ e ∈ d.items, e.1 ≤ maxRadius) :
    Inv (reopen d cap) := St.reopen_inv d cap h hkeys

/-- "An over-capacity store is pruned on open" -/
theorem open_prunes_overcap (d : Disk) (cap : Nat) (h : DiskOk d) (hkeys : ∀ e ∈ d.items, e.1 ≤ maxRadius)
    (hover : d.counter > cap) :
    (reopen d cap).items = [] ∨ cap / 20 ≤ d.counter - (reopen d cap).tracked := St.reopen_prunes_overcap d cap h hkeys hover

/-- "the radius is re-derived from the farthest retained item when the store is more than 95% full and is the maximum
    otherwise" -/
theorem open_radius_rule (d : Disk) (cap : Nat) :
    (d.counter ≤ cap * 19 / 20 → (reopen d cap).radius = maxRadius ∧ (reopen d cap).items = d.items) ∧
    (d.counter > cap * 19 / 20 → ∀ e, (reopen d cap).items.getLast? = some e → (reopen d cap).radius = e.1) :=
  ⟨St.reopen_radius_max d cap, fun h e he => St.reopen_radius_farthest d cap h e he⟩

/-- items found after a crash are genuine: with values, whatever `get` returns on a prefix image is the value of the
    last accepted put for that id in that prefix (refinement of C04 applied to the prefix history) -/
theorem crash_items_genuine (prune : Sv.Store → Sv.Store) (hp : ∀ s, Sv.PruneOf s (prune s)) (s : Sv.Store) (spec : Sv.Spec)
    (k : Nat) (v : Sv.Val) (href : Sv.Refines s spec) :
    Sv.Refines (Sv.put prune s k v).1
      (if (Sv.put prune s k v).2 = .ok then (fun k' => if k' = k then some v else spec k') else spec) :=
  Sv.put_refines prune hp s spec k v href

example : DiskOk { items := [(3, 50), (5, 400)], counter := 600 } := by
  refine ⟨by simp [AllLt], by decide, ?_⟩
  intro e he; simp at he; rcases he with rfl | rfl <;> decide

/-! ## Why each step's writes share one batch (negative witnesses for the split layouts) -/

/-- the item outside the batch of its size record: some crash image under-reports -/
theorem split_put_underreports :
    (St.batchesOfPutItemFirst (St.init 1000) 5 400).any St.underReports = true := St.split_put_underreports

/-- the size record of a pruning pass ahead of its deletes: some crash image under-reports -/
theorem size_before_deletes_underreports :
    (St.batchesOfPutSizeBeforeDeletes (St.run (St.init 1000) [(5, 400), (9, 400), (7, 100)]) 3 50).any St.underReports = true :=
  St.size_before_deletes_underreports

#print axioms crash_images_ok
#print axioms last_image
#print axioms reopen_inv
#print axioms open_prunes_overcap
#print axioms open_radius_rule
#print axioms crash_items_genuine
#print axioms split_put_underreports
#print axioms size_before_deletes_underreports
end Props.C17
