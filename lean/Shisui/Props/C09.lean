import Shisui.Offer
import Shisui.OfferLifecycle
import Shisui.Bitlist
import Shisui.Framing
/-! # C09 — OFFER gets one verdict per key and accepted content arrives intact under its key

Model: `Of.handleOffer` (`filterContentKeysV0/V1`, permit, connection id, verdict rewriting when no slot),
`Of.pick` (what offerer and receiver select with the verdict list), `Of.handleOfferedContents` (count check),
composed with the bit-list codec `Bl` (version 0 ACCEPT) and the stream framing `Fr` (C15). `quirkV0 = false` is the
model the theorems are about (the deviation for version 0 without a slot was repaired in /repo). -/
namespace Props.C09
open Of

/-- "The reply to an OFFER carries exactly one verdict per offered key, in order" -/
theorem verdict_count (q : Bool) (v : Nat) (e : Env) (p : Bool) (cid : Nat) (keys : List Nat) :
    (handleOffer q v e p cid keys).verdicts.length = keys.length := Of.verdict_count q v e p cid keys

/-- "a key is marked accepted only if the node's in-range test admits it, it is not already stored, it is not (in
    version 1) already being received, and a transfer slot was obtained for this offer" -/
theorem accepted_only_if (v : Nat) (e : Env) (p : Bool) (cid : Nat) (keys : List Nat) (i : Nat) (hi : i < keys.length)
    (h : (handleOffer false v e p cid keys).verdicts[i]? = some .accepted) :
    e.inRange keys[i] = true ∧ e.stored keys[i] = false ∧ (v ≠ 0 → e.inflight keys[i] = false) ∧ p = true :=
  Of.accepted_only_if v e p cid keys i hi h

/-- "exactly when at least one key is accepted the reply announces a connection id on which the node is really
    waiting" (and it waits for exactly the accepted keys) -/
theorem connid_iff (v : Nat) (e : Env) (p : Bool) (cid : Nat) (keys : List Nat) :
    ((handleOffer false v e p cid keys).connId.isSome ↔ (handleOffer false v e p cid keys).waitingFor ≠ []) ∧
    ((handleOffer false v e p cid keys).connId.isSome →
       (handleOffer false v e p cid keys).waitingFor = acceptedKeys keys (handleOffer false v e p cid keys).verdicts) :=
  Of.connid_iff v e p cid keys

/-- "the items handed to validation are exactly the offered contents of the accepted keys paired with those keys in
    order": offerer's selection zipped with receiver's selection = selection of the zipped pairs -/
theorem pairing {α β : Type} (ks : List α) (cs : List β) (vs : List Verdict)
    (h1 : ks.length = vs.length) (h2 : cs.length = vs.length) :
    (pick ks vs).zip (pick cs vs) = pick (ks.zip cs) vs ∧ (pick ks vs).length = (pick cs vs).length :=
  Of.pairing ks cs vs h1 h2

/-- end to end through the codecs: the version-0 verdict bit list and the content stream both round-trip, so the
    receiver decodes exactly the verdicts sent and exactly the contents written -/
theorem codecs_roundtrip (bits : List Bool) (contents : List (List Nat)) (h : ∀ x ∈ contents, x.length < 2 ^ 32) :
    Bl.decode (Bl.encode bits) = some bits ∧ Fr.decContents (Fr.encContents contents) = some contents :=
  ⟨Bl.decode_encode bits, Fr.contents_roundtrip contents h⟩

/-- "a stream with a different item count is discarded" -/
theorem count_mismatch_dropped {α β : Type} (keys : List α) (contents : List β) (h : keys.length ≠ contents.length) :
    handleOfferedContents keys contents = none := Of.count_mismatch_dropped keys contents h

/-- the deviation that was found and repaired: version 0 with no slot kept the accept bits (decided witness) -/
theorem v0_ratelimited_witness :
    let e : Env := { inRange := fun _ => true, stored := fun _ => false, inflight := fun _ => false, queueFull := false }
    let r := handleOffer true 0 e false 7 [1, 2]
    r.verdicts = [Verdict.accepted, Verdict.accepted] ∧ r.connId = none ∧ r.waitingFor = [] :=
  Of.quirk_v0_ratelimited_breaks_C09

example : (handleOffer false 1 { inRange := fun k => k != 3, stored := fun k => k == 2, inflight := fun k => k == 4, queueFull := false }
    true 9 [1, 2, 3, 4]).verdicts = [.accepted, .alreadyStored, .notWithinRadius, .inProgress] := by decide

/-! ## "not (in version 1) already being received", over every history of offers and transfer ends (`Ofl`) -/

/-- over every sequence of offers and transfer ends, no key is ever being received by two transfers at once -/
theorem never_received_twice (es : List Ofl.Ev) : Ofl.Inv (Ofl.run {} es).1 := Ofl.run_inv {} es Ofl.Inv_init

/-- a key that an unfinished transfer is waiting for gets the verdict "in progress" from every further offer -/
theorem pending_key_declined (s : Ofl.St) (i : Nat) (w : List Nat) (k : Nat) (hw : s.waiting[i]? = some w) (hk : k ∈ w) :
    verdictV1 (Ofl.env s) k = .inProgress := Ofl.pending_key_declined s i w k hw hk

/-- the end of one transfer clears nothing that another transfer is waiting for -/
theorem finish_keeps_others (s : Ofl.St) (n j : Nat) (hne : j ≠ n) :
    (Ofl.step s (.finish n)).1.waiting[j]? = s.waiting[j]? := Ofl.finish_keeps_others s n j hne

/-- an accepted key was not being received before, and is from the reply on -/
theorem accepted_becomes_inflight (s : Ofl.St) (keys : List Nat) (k : Nat)
    (h : k ∈ (handleOffer false 1 (Ofl.env s) true 7 keys).waitingFor) :
    Ofl.inflight s k = false ∧ Ofl.inflight (Ofl.step s (.offer keys)).1 k = true := Ofl.accepted_becomes_inflight s keys k h

/-- a version-0 offer does not consult the marks but sets them: a version-1 offer arriving while it is pending declines -/
theorem v0_accepted_is_marked (s : Ofl.St) (keys : List Nat) (k : Nat)
    (h : k ∈ (handleOffer false 0 (Ofl.env s) true 7 keys).waitingFor) :
    Ofl.inflight (Ofl.stepM s (.offer 0 keys)).1 k = true := Ofl.v0_accepted_is_marked s keys k h

example : ((Ofl.stepM (Ofl.stepM {} (.offer 0 [4])).1 (.offer 1 [4, 5])).2) = [.inProgress, .accepted] := by decide

/-- the history of the seeded change C09c: A = {1,2} pending, B = {2,3} ends, C = {2} must still be declined -/
example : (Ofl.run {} [.offer [1, 2], .offer [2, 3], .finish 1, .offer [2]]).2 =
    [[.accepted, .accepted], [.inProgress, .accepted], [], [.inProgress]] := by decide

#print axioms never_received_twice
#print axioms v0_accepted_is_marked
#print axioms pending_key_declined
#print axioms finish_keeps_others
#print axioms accepted_becomes_inflight
#print axioms verdict_count
#print axioms accepted_only_if
#print axioms connid_iff
#print axioms pairing
#print axioms codecs_roundtrip
#print axioms count_mismatch_dropped
#print axioms v0_ratelimited_witness
end Props.C09
