import Shisui.DispatchProofs
import Shisui.Trie.Sound
/-! # C01 — No remote input can crash or wedge the node

> For every byte string a peer can deliver — a TALKREQ payload on any portal sub-protocol or the uTP channel, a
> TALKRESP to one of our own requests, a uTP stream body, or an offered or looked-up content item together with its
> content key — the node produces a well-formed reply, an empty reply or a returned error. It never panics and the
> handling call returns.

Property theorems only; the model is `Dp` (`Shisui/Dispatch.lean`, `Shisui/DispatchVal.lean`), lemmas are in
`Shisui/DispatchProofs.lean`. Go slices are `List Nat`; every index / slice / dereference shisui's own code performs
on peer-controlled data without a dominating guard is an explicit `Out.panic site` outcome behind a Boolean switch
(`Dp.Quirks`). The theorems below are about the model with every switch off (`{}`): the code with a length / nil
guard at each of those sites. The section *Findings* states, for the switches on, the concrete inputs that reach
`panic`; the driver compares the real code with the switched model and reports every panic of the real code as a
violated clause `no_panic@<site>`.

What the model does not contain (DESIGN §7, "partial"): the byte-level decoders of dependencies (rlp, ztyp/zrnt
containers, ping-extension payloads, ENR signature checks), Merkle / hash verification and the uTP library. Where such
a dependency decides between a value and an error the model says `Out.handled`; panics or blocking inside them are
sampled by the correspondence run only. -/
namespace Props.C01
open Dp

/-! ## TALKREQ on a portal sub-protocol -/

/-- "For every byte string a peer can deliver — a TALKREQ payload on any portal sub-protocol … It never panics":
    every network (history / beacon / state adapters), every store content, every sender version, every message. -/
theorem talk_never_panics (net : Net) (e : Env) (hw : SumWf e) (ver : Option Nat) (msg : List Nat) :
    (handleTalk {} net e ver msg).isPanic = false := Dp.handleTalk_noPanic net e hw ver msg

/-- "the node produces a well-formed reply, an empty reply …": the reply is empty, or it carries the response code
    of the request that was sent (PONG for PING, NODES for FINDNODES, CONTENT for FINDCONTENT, ACCEPT for OFFER);
    the talk handler never returns an error. (Field-level well-formedness of each reply is C08 / C09 / C11.) -/
theorem talk_reply_or_empty (net : Net) (e : Env) (hw : SumWf e) (ver : Option Nat) (msg : List Nat) :
    handleTalk {} net e ver msg = .empty ∨
    ∃ c s, handleTalk {} net e ver msg = .reply c s ∧ msg.head? = some (c - 1) ∧ (c = 1 ∨ c = 3 ∨ c = 5 ∨ c = 7) :=
  Dp.handleTalk_class net e hw ver msg

/-- unknown message codes and every undecodable body are answered with the empty reply -/
theorem talk_unknown_code_empty (net : Net) (e : Env) (ver : Option Nat) (c : Nat) (body : List Nat)
    (h : c ≠ 0 ∧ c ≠ 2 ∧ c ≠ 4 ∧ c ≠ 6) : handleTalk {} net e ver (c :: body) = .empty :=
  Dp.handleTalk_unknown_code net e ver c body h

/-- the dispatch skeleton is `Fc.handleTalk` of the model file FindContent.lean, instantiated with the four handlers
    (whose panic-freedom is what `Fc.talk_no_panic` assumes and `talk_never_panics` establishes) -/
theorem talk_dispatch_is_Fc (q : Quirks) (hq : q.talkEmpty = false) (net : Net) (e : Env) (ver : Option Nat) (msg : List Nat) :
    toFc (handleTalk q net e ver msg) =
      Fc.handleTalk false (fun b => toFc (pingOut b)) (fun b => toFc (findNodesOut b))
        (fun b => toFc (findContentMsg q net e b)) (fun b => toFc (offerMsg q net e ver b)) msg :=
  Dp.handleTalk_is_Fc q hq net e ver msg

/-- the invariant `talk_never_panics` assumes about stored historical summaries holds initially and is kept by every
    (ideal) `Put`, whatever key and content the peer chose -/
theorem summaries_invariant (e : Env) (hw : SumWf e) (body content : List Nat) :
    SumWf {} ∧ SumWf { e with sum := (sumPut {} e body content).2 } :=
  ⟨Dp.SumWf_empty, Dp.sumPut_wf e hw body content⟩

/-! ## TALKREQ on the uTP channel -/

/-- "… or the uTP channel": the handler is an enqueue on the socket's bounded channel; while there is room it
    returns the empty reply (blocking on a full channel is recorded in DESIGN §5 as a candidate, watched by the
    `utp_queue_has_room` monitor; parsing happens in the uTP library, outside the model) -/
theorem utp_talk_returns_empty (queued cap : Nat) (h : queued < cap) : utpTalk queued cap = some .empty :=
  Dp.utpTalk_returns queued cap h

/-! ## TALKRESP to one of our own requests -/

/-- "a TALKRESP to one of our own requests … a returned error. It never panics": the four response processors end
    in a value or an error for every byte string (PONG payloads, ENR records and the uTP dial are dependencies:
    `handled` = value or error decided there) -/
theorem talkresp_never_panics (resp : List Nat) (version nkeys : Nat) :
    (processPong resp = .err ∨ processPong resp = .handled) ∧
    (processNodes resp = .err ∨ processNodes resp = .ok) ∧
    (processContent {} resp = .err ∨ processContent {} resp = .ok) ∧
    (processOffer version nkeys resp = .err ∨ processOffer version nkeys resp = .ok) :=
  ⟨Dp.processPong_class resp, Dp.processNodes_class resp, Dp.processContent_class resp,
   Dp.processOffer_class version nkeys resp⟩

/-- length 0, 1 and 2 and a wrong message code are errors for every processor -/
theorem talkresp_short_is_error :
    processPong [] = .err ∧ processNodes [] = .err ∧ processContent {} [] = .err ∧ processOffer 1 2 [] = .err ∧
    (∀ c, processContent {} [c] = .err) ∧ (∀ c, c ≠ 5 → ∀ b, processContent {} (c :: b) = .err) :=
  Dp.processors_short_is_error

/-! ## uTP stream body -/

/-- "a uTP stream body": accepted exactly when it splits into as many items as keys were accepted, an error
    otherwise (the splitting itself is C15's `Fr.decContents`) -/
theorem stream_body_ok_or_error (nkeys : Nat) (payload : List Nat) :
    (offeredContents nkeys payload = .err ∨ offeredContents nkeys payload = .ok) ∧
    (offeredContents nkeys payload = .ok ↔ ∃ items, Fr.decContents payload = some items ∧ items.length = nkeys) :=
  ⟨Dp.offeredContents_class nkeys payload, Dp.offeredContents_ok_iff nkeys payload⟩

/-! ## content item together with its content key: storage adapters -/

/-- "an offered or looked-up content item together with its content key": `ContentStorage.Get` of the three
    adapters for EVERY key (empty, one byte, unknown type, short, long) -/
theorem adapter_get_never_panics (net : Net) (e : Env) (hw : SumWf e) (key : List Nat) :
    (getOut {} net e key).isPanic = false := Dp.getOut_noPanic net e hw key

/-- `ContentStorage.Put` of the history and beacon adapters for every key and content -/
theorem adapter_put_never_panics (e : Env) (hw : SumWf e) (key content : List Nat) :
    (historyPut {} key).isPanic = false ∧ (beaconPut {} e key content).isPanic = false :=
  ⟨Dp.historyPut_noPanic key, Dp.beaconPut_noPanic e hw key content⟩

/-- `Put` of the state adapter. PARTIAL: key and content are described by what the generator knows of them (proof
    length, hash match); their ztyp decoders are dependencies (`raw` ⇒ `handled` or `err`). Missing for full
    strength: a byte-level model of the ztyp container decoders. -/
theorem state_put_never_panics_partial (key : List Nat) (shape : StateShape) :
    (statePut {} key shape).isPanic = false := Dp.statePut_noPanic key shape

/-! ## content item together with its content key: validators -/

/-- `ValidateContent` of the three validators, over any answer of the header source. PARTIAL: inputs are shapes
    (era, consistency of the execution-block branch, peer-chosen slot; body / header withdrawals; a decoded first
    proof node with a peer-chosen path); rlp / SSZ decoding and Merkle / Keccak checks are dependencies. Missing for
    full strength: byte-level models of those decoders (C02 / C03 / C13 model the checks themselves). -/
theorem validators_never_panic_partial (key : List Nat) (hs : HistShape) (ss : StShape)
    (hw : ∀ n path l h, ss = .acct2 (some n) path l h → WfNode n ∧ ∀ x ∈ path, x < 17) :
    (historyValidate {} key hs).isPanic = false ∧ (stateValidate {} key ss).isPanic = false ∧
    (beaconValidate {} key).isPanic = false :=
  ⟨Dp.historyValidate_noPanic key hs, Dp.stateValidate_noPanic key ss hw, Dp.beaconValidate_noPanic key⟩

/-- `TraverseTrieNode` on any node the decoder can produce (17-slot full nodes, terminated keys hold values) along
    any nibble path: an error or a reference, never a panic -/
theorem traverse_never_panics (n : Tr.Node) (path : List Nat) (hw : WfNode n) (hp : ∀ x ∈ path, x < 17) :
    ∀ k, traverseQ false false n path ≠ .panic k := Dp.traverseQ_noPanic n path hw hp

/-- with both trie switches on the model is the traversal model of C13 (`Tr.traverse`, whose `ok` results are
    characterised by `Tr.traverse_sound` / `Tr.traverse_complete`) -/
theorem traverse_asIs_is_Tr (n : Tr.Node) (path : List Nat) : (traverseQ true true n path).erase = Tr.traverse n path :=
  Dp.traverseQ_asIs n path

/-! ## "… and the handling call returns" -/

/-- every model function is total (structural or well-founded recursion: `Fr.decContents` on the stream length,
    `traverseQ` on the path length, `updatesWalk` on `end − start`). The one loop whose bound is chosen by the peer —
    the update-range loop of the beacon adapter's `Get`, `Count` up to 2^64 — makes at most one look-up per stored
    period plus the one that misses -/
theorem returns_updates_loop (periods : List (Nat × Nat)) (endp p : Nat) :
    updatesSteps periods endp p ≤ periods.length + 1 := Dp.updatesSteps_le periods endp p

/-- each item of a stream body consumes at least one byte (so `decodeContents` makes at most `len` iterations) -/
theorem returns_stream_items (data x rest : List Nat) (h : Fr.decSingle data = some (x, rest)) :
    rest.length < data.length := Fr.decSingle_shrinks data x rest h

/-! ## Findings: the tree as found (`Quirks.asIs`) — NEGATIVE results, one per unguarded site -/

/-- an empty TALKREQ panics in `handleTalkRequest` (no `recover` around talk handlers: the process dies) -/
theorem finding_empty_talkreq (net : Net) (e : Env) (ver : Option Nat) :
    handleTalk { talkEmpty := true } net e ver [] = .panic "portalwire.PortalProtocol.handleTalkRequest:idx" :=
  Dp.quirk_talk_empty net e ver

/-- a one-byte CONTENT response panics in `processContent` -/
theorem finding_content_selector :
    processContent { contentSel := true } [5] = .panic "portalwire.PortalProtocol.processContent:idx" :=
  Dp.quirk_content_selector

/-- FINDCONTENT / OFFER with an empty content key panic in the history and beacon adapters; `Put` / `ValidateContent`
    with an empty key panic in all three networks -/
theorem finding_empty_content_key :
    (handleTalk { histKey := true } .history {} (some 1) [4, 4, 0, 0, 0] = .panic "history.isEphemeralOfferType:idx" ∧
     handleTalk { histKey := true } .history {} (some 0) [6, 4, 0, 0, 0, 4, 0, 0, 0] = .panic "history.isEphemeralOfferType:idx") ∧
    (handleTalk { beaconGetKey := true } .beacon {} (some 1) [4, 4, 0, 0, 0] = .panic "beacon.Storage.Get:idx" ∧
     beaconPut { beaconPutKey := true } {} [] [] = .panic "beacon.Storage.Put:idx") ∧
    (statePut { stateKey := true } [] .raw = .panic "state.Storage.Put:idx" ∧
     historyValidate { histVal := true } [] .raw = .panic "history.HistoryValidator.ValidateContent:idx" ∧
     stateValidate { stateVal := true } [] .raw = .panic "state.StateValidator.ValidateContent:idx" ∧
     beaconValidate { beaconVal := true } [] = .panic "beacon.BeaconValidator.ValidateContent:idx") :=
  ⟨Dp.quirk_history_empty_key, Dp.quirk_beacon_empty_key, Dp.quirk_empty_key_put_validate⟩

/-- once summaries are stored, FINDCONTENT for the key `0x14` panics in `reverseCompare`; a long key panics in `Put`;
    a short key is stored as a short value on which later calls slice out of range -/
theorem finding_beacon_summaries :
    handleTalk { beaconSumGet := true } .beacon envSum (some 1) [4, 4, 0, 0, 0, 0x14] = .panic "beacon.reverseCompare:idx" ∧
    beaconPut { beaconSumPut := true } envSum [0x14, 1, 2, 3, 4, 5, 6, 7, 8, 9] [] = .panic "beacon.reverseCompare:idx" ∧
    (sumPut { beaconSumPut := true } {} [1] []).2 = some ([1], 1) ∧
    beaconGet { beaconSumGet := true } { sum := some ([1], 1) } [0x14, 0, 0, 0, 0, 0, 0, 0, 0] = .panic "beacon.Storage.Get:slice" ∧
    beaconPut { beaconSumPut := true } { sum := some ([1], 1) } [0x14, 0, 0, 0, 0, 0, 0, 0, 0] [] = .panic "beacon.Storage.Put:slice" :=
  Dp.quirk_beacon_summaries

/-- an empty proof list panics in the state adapter's `Put` -/
theorem finding_state_empty_proof :
    statePut { stateProof := true } [0x20] (.acc 0 false) = .panic "state.Storage.putAccountTrieNode:idxneg" ∧
    statePut { stateProof := true } [0x21] (.con 0 false) = .panic "state.Storage.putContractStorageTrieNode:idxneg" :=
  Dp.quirk_state_empty_proof

/-- a peer-chosen slot beyond the historical-roots table, a Shanghai-format body under a pre-Shanghai header, and
    the two unchecked accesses of the trie traversal -/
theorem finding_validators :
    historyValidate { rootsIndex := true } [0] (.roots true (758 * 8192) 758) =
      .panic "validation.HeaderValidator.validateMergeToCapellaHeader:idx" ∧
    historyValidate { withdrawalsNil := true } [1] (.body false true false) = .panic "history.validateBlockBody:nil" ∧
    traverseQ true false (.short [] .empty) [1] = .panic "idxneg" ∧
    traverseQ false true (.short [1, 2] (.hash [9])) [1] = .panic "idx" ∧
    stateValidate { triePath := true } [0x20] (.acct2 (some (.short [1, 2] (.hash [9]))) [1] true true) =
      .panic "trie.TraverseTrieNode:idx" :=
  ⟨Dp.quirk_roots_index, Dp.quirk_withdrawals_nil, Dp.quirk_trie.1, Dp.quirk_trie.2.1, Dp.quirk_trie.2.2⟩

/-! ## non-vacuity -/

-- the hypothesis `SumWf` is met by the empty store and by a store holding summaries
example : SumWf {} := Dp.SumWf_empty
example : SumWf envSum := Dp.SumWf_envSum
-- the ideal model on the very inputs of the findings: empty reply, "not found" reply, error
example : handleTalk {} .history {} (some 1) [] = .empty ∧
    handleTalk {} .history {} (some 1) [4, 4, 0, 0, 0] = .reply 5 (some 2) ∧
    handleTalk {} .beacon envSum (some 1) [4, 4, 0, 0, 0, 0x14] = .reply 5 (some 2) ∧
    handleTalk {} .beacon envSum (some 1) [4, 4, 0, 0, 0, 0x14, 4, 0, 0, 0, 0, 0, 0, 0] = .reply 5 (some 1) ∧
    handleTalk {} .beacon envSum (some 1) [4, 4, 0, 0, 0, 0x14, 6, 0, 0, 0, 0, 0, 0, 0] = .reply 5 (some 2) ∧
    processContent {} [5] = .err := Dp.ideal_on_witnesses
-- replies of every kind occur: PONG, NODES, stored content inline, ACCEPT
example : handleTalk {} .history {} (some 1) [0, 1, 0, 0, 0, 0, 0, 0, 0, 0, 0, 14, 0, 0, 0] = .reply 1 none := by decide
example : handleTalk {} .state {} (some 1) [2, 4, 0, 0, 0, 0, 1] = .reply 3 none := by decide
example : handleTalk {} .state { held := [([0x20, 7], 100)] } (some 1) [4, 4, 0, 0, 0, 0x20, 7] = .reply 5 (some 1) := by decide
example : handleTalk {} .history {} (some 1) [6, 4, 0, 0, 0, 4, 0, 0, 0, 1] = .reply 7 none := by decide
example : handleTalk {} .history {} none [6, 4, 0, 0, 0, 4, 0, 0, 0, 1] = .empty := by decide
-- a well-formed node and path (hypotheses of `traverse_never_panics`), here an extension over a short path
example : WfNode (.short [1, 2] (.hash [9])) ∧ ∀ x ∈ [1], x < 17 := by
  simp [WfNode]
-- the loop bound is attained: two stored periods, a count of 2^64 − 1: three look-ups
example : updatesSteps [(5, 10), (6, 10)] (2 ^ 64 - 1) 5 = 3 := by
  rw [updatesSteps]; simp; rw [updatesSteps]; simp; rw [updatesSteps]; simp

#print axioms talk_never_panics
#print axioms talk_reply_or_empty
#print axioms talk_unknown_code_empty
#print axioms talk_dispatch_is_Fc
#print axioms summaries_invariant
#print axioms utp_talk_returns_empty
#print axioms talkresp_never_panics
#print axioms talkresp_short_is_error
#print axioms stream_body_ok_or_error
#print axioms adapter_get_never_panics
#print axioms adapter_put_never_panics
#print axioms state_put_never_panics_partial
#print axioms validators_never_panic_partial
#print axioms traverse_never_panics
#print axioms traverse_asIs_is_Tr
#print axioms returns_updates_loop
#print axioms returns_stream_items
#print axioms finding_empty_talkreq
#print axioms finding_content_selector
#print axioms finding_empty_content_key
#print axioms finding_beacon_summaries
#print axioms finding_state_empty_proof
#print axioms finding_validators
end Props.C01
