import Shisui.Store.Reach
import Shisui.FindContent
import Shisui.Beorder
/-! # C06 — Radius, admission and retained content agree under the XOR metric

Ideal model (`St`, distance = big-endian value of xor(contentId,nodeId) = pebble's key order by `Be.lexLt_iff`).
The code deviates at the three sites that read a key with `uint256.UnmarshalSSZ` (little-endian); `le_reading_breaks_C06`
proves, on an explicit history of the *executable* model with that switch on, that a retained item then lies beyond the
advertised radius — a known finding (a baseline test pins the little-endian byte image). The driver checks the real
store against the model with the switch on, exactly. -/
namespace Props.C06
open St

/-- "At all times every retained item lies within the advertised radius … and the radius only shrinks during a run":
    every state reached from an empty store by any put history -/
theorem retained_within_and_antitone (cap : Nat) (ops : List (Nat × Nat)) (h : ∀ op ∈ ops, 0 < op.1) :
    (∀ e ∈ (run (init cap) ops).items, e.1 ≤ (run (init cap) ops).radius) ∧
    (run (init cap) ops).radius ≤ (init cap).radius := by
  have := St.run_inv ops (init cap) h (init_inv cap)
  exact ⟨fun e he => (this.1.within e he).2, this.2.1⟩

/-- the radius never grows from one put to the next (from any state satisfying the invariant) -/
theorem radius_antitone_step (s : Store) (k v : Nat) (hk : 0 < k) (h : Inv s) : (put s k v).1.radius ≤ s.radius :=
  (St.put_inv s k v hk h).2

/-- "a put is refused for insufficient radius only when its distance is not below the radius" (and conversely) -/
theorem refusal_exact (s : Store) (k v : Nat) : (put s k v).2 = .insufficientRadius ↔ ¬ k < s.radius :=
  St.put_refusal s k v

/-- "The in-range test used to filter offers, to answer the store RPC and to pick gossip targets applies this same
    rule": in range ⇔ xor distance < radius -/
theorem inRange_iff (node radius content : Nat) :
    Fc.inRange false node radius content = true ↔ (node ^^^ content) < radius := Fc.inRange_iff node radius content

/-- pebble's bytewise key order is the order of the big-endian distances -/
theorem key_order_is_big_endian (a b : List Nat) (hl : a.length = b.length) (ha : Be.Bytes a) (hb : Be.Bytes b) :
    Be.lexLt a b = true ↔ Be.beVal a < Be.beVal b := Be.lexLt_iff a b hl ha hb

/-- NEGATIVE result for the code as it is: with the little-endian reading switched on, after three puts and one
    prune the store keeps an item whose (big-endian) distance 10 exceeds the advertised radius 2. -/
theorem le_reading_breaks_C06 :
    let s0 : StX.Store := StX.empty 100
    let s1 := (StX.put true s0 { be := 10, le := 1, len := 10, val := 0 }).1
    let s2 := (StX.put true s1 { be := 20, le := 2, len := 10, val := 0 }).1
    let s3 := (StX.put true s2 { be := 30, le := 3, len := 10, val := 0 }).1
    s3.radius = 2 ∧ (s3.items.map (·.be)) = [10, 20] := by decide

/-- NEGATIVE result: comparing the radius with the log2 distance admits distance 7 under radius 4 -/
theorem logdist_inrange_breaks_C06 : Fc.inRange false 0 4 7 = false ∧ Fc.inRange true 0 4 7 = true :=
  Fc.quirk_inrange_logdist_breaks_C06

example : (run (init 1000) [(5, 400), (9, 400), (7, 100), (3, 50)]).radius = 7 := by decide

#print axioms retained_within_and_antitone
#print axioms radius_antitone_step
#print axioms refusal_exact
#print axioms inRange_iff
#print axioms key_order_is_big_endian
#print axioms le_reading_breaks_C06
#print axioms logdist_inrange_breaks_C06
end Props.C06
