import Shisui.FindNodes
import Shisui.FindContent
import Shisui.PacketSize
import Shisui.FindNodesRel
/-! # C11 — FINDNODES replies and their acceptance obey distance, size and relay rules

Model: `Fnn.collect` (`collectTableNodes` over `appendBucketNodes`), `Fc.truncate` (`truncateNodes`),
`Pk.talkRespSize` (discv5 TALKRESP datagram size from the RLP length arithmetic), `Fnn.filterNodes`
(`filterNodes`/`verifyResponseNode`). Record attributes (signature valid, relay-safe, UDP port, log-distance to the
responder) are observations computed by go-ethereum functions; the decision logic over them is what is modelled. -/
namespace Props.C11

/-- "offers the local record for distance 0 and otherwise only liveness-checked table entries from the buckets that cover
    the requested distances, at most 32 … omitting any record (the local one included) whose address could not safely be
    relayed to the asker" -/
theorem nodes_rule (bucket : Nat → List Fnn.TNode) (self : Fnn.TNode) (ds : List Nat) :
    (∀ n ∈ Fnn.collect bucket self 32 ds [] [], n.relayOk = true ∧ (n = self ∨ n.live = true)) ∧
    (Fnn.collect bucket self 32 ds [] []).length ≤ 32 := Fnn.nodes_rule bucket self ds

/-- the same clause for the relation the driver evaluates on REAL replies (buckets are shuffled, so the reply is a relation
    of the table): whatever reply satisfies it consists of the local record (distance 0 requested) or verified entries of
    the bucket covering a requested distance ≤ 256, all relay-safe for the asker -/
theorem allowed_reply_rule (tab : List Fnr.TN) (selfN : Fnr.TN) (asker : String) (dists : List Nat) (res : List Nat)
    (rest : List (List Fnr.TN))
    (h : Fnr.consume ((Fnr.cleanDists dists []).map (Fnr.cands tab selfN asker)) res = (true, rest)) :
    ∀ i ∈ res, ∃ d ∈ dists, d ≤ 256 ∧ ∃ n, n.id = i ∧ Fnr.relayOk asker n.cls = true ∧
      ((d = 0 ∧ n = selfN) ∨ (d ≠ 0 ∧ n ∈ tab ∧ n.live = true ∧ n.bucket = Fnr.bucketOf d)) :=
  Fnr.allowed_reply_rule tab selfN asker dists res rest h

/-- "A FINDNODES reply fits in one discv5 packet": whatever list of records is handed to `truncateNodes` with the budget
    `maxPacketSize − talkRespOverhead − 6`, the NODES message (1 id byte + 1 total + 4 offset + Σ(4 + record)) yields a
    datagram of at most 1280 bytes for every request id of at most 8 bytes -/
theorem nodes_fits (nodes : List Fc.N) (reqId : Nat) (s1 s2 : Bool) (hr : reqId ≤ 8) :
    Pk.talkRespSize reqId (6 + Fc.size (Fc.truncate (1280 - 103 - 6) nodes 0)) s1 s2 ≤ 1280 := by
  obtain ⟨_, _, h⟩ := Fc.truncate_prefix (1280 - 103 - 6) nodes 0
  have h' : Fc.size (Fc.truncate (1280 - 103 - 6) nodes 0) ≤ 1171 := by
    simp only [Nat.zero_add] at h
    omega
  have := Pk.fits reqId (6 + Fc.size (Fc.truncate (1280 - 103 - 6) nodes 0)) s1 s2 hr
    (by simp only [Pk.maxPacketSize, Pk.talkRespOverhead]; omega)
  simpa [Pk.maxPacketSize] using this

/-- the constant in the code is the real overhead bound: 16 + 55 + 1 + 3 + 9 + 3 + 16 = 103, tight at (8, 1177) -/
theorem overhead_exact : Pk.talkRespOverhead = 103 ∧ Pk.talkRespSize 8 1177 false false = 1280 :=
  ⟨Pk.overhead_value, Pk.tight⟩

/-- "On the asking side a record from a NODES reply is used only if it is validly signed, lies at one of the requested
    distances from the responder, is not a repeat, has a UDP port above 1024 and passes the relay-address check." -/
theorem accept_only_if (requested : Option (List Nat)) (rs : List Fnn.Rec) :
    (∀ r ∈ Fnn.filterNodes requested [] rs,
        r ∈ rs ∧ r.signed = true ∧ r.relayOk = true ∧ r.inNetrestrict = true ∧ r.udp > 1024 ∧
        (∀ ds, requested = some ds → r.dist ∈ ds)) ∧
    ((Fnn.filterNodes requested [] rs).map (·.id)).Nodup := Fnn.accept_only_if requested rs

/-- "ignoring invalid and repeated distances": the bucket map is total on every distance the handler keeps (≤ 256) -/
theorem bucket_map_total (d : Nat) (h : d ≤ 256) : (if d ≤ 239 then 0 else d - 239 - 1) < 17 := by
  split <;> omega

example : (Fnn.filterNodes (some [255]) [] [{ id := 1, signed := true, relayOk := true, inNetrestrict := true, udp := 30303, dist := 255 },
    { id := 1, signed := true, relayOk := true, inNetrestrict := true, udp := 30303, dist := 255 },
    { id := 2, signed := true, relayOk := true, inNetrestrict := true, udp := 1024, dist := 255 }]).length = 1 := by decide

#print axioms nodes_rule
#print axioms allowed_reply_rule
#print axioms nodes_fits
#print axioms overhead_exact
#print axioms accept_only_if
#print axioms bucket_map_total
end Props.C11
