import Shisui.FramingUtp
import Shisui.FramingLen
/-! # C15 — Content stream framing round-trips and rejects malformed streams

Property theorems only; lemmas live in `Shisui/Framing*.lean`. Bytes are `Nat`s; the model functions are
`Fr.encContents/decContents` (`encodeContents/decodeContents`), `Fr.encSingle/decSingle`
(`encode/decodeSingleContent` over wabin LEB128) and `Fr.utpEnc/utpDec` (`encode/decodeUtpContent`). -/
namespace Props.C15
open Fr

/-- "Splitting a uTP stream into content items inverts joining them for any list of byte strings, empty
    items included." (Go's `uint32(len(data))` is exact for items shorter than 2^32 bytes.) -/
theorem contents_roundtrip (xs : List (List Nat)) (h : ∀ x ∈ xs, x.length < 2 ^ 32) :
    decContents (encContents xs) = some xs := Fr.contents_roundtrip xs h

/-- "A stream that is truncated … is rejected with an error rather than split differently." -/
theorem truncated_never_resplits (xs : List (List Nat)) (h : ∀ x ∈ xs, x.length < 2 ^ 32) (p t : List Nat)
    (hp : p ++ t = encContents xs) : decContents p = none ∨ ∃ k, decContents p = some (xs.take k) :=
  Fr.prefix_never_resplits xs h p t hp

/-- "… whose length prefix exceeds the remaining bytes … is rejected" (first item; later items by induction
    through `decContents`' recursion, which propagates `none`). -/
theorem overlong_prefix_rejected (data : List Nat) (len hdr : Nat) (hne : data ≠ [])
    (hd : dec data = some (len, hdr)) (hlong : data.length < hdr + len) : decContents data = none :=
  Fr.decSingle_none_decContents data hne (Fr.overlong_prefix_rejected data len hdr hd hlong)

/-- "… or whose varint overflows 32 bits is rejected": no decoded length reaches 2^32, and a stream whose
    varint does not decode is rejected as a whole. -/
theorem varint_overflow_rejected (data : List Nat) (hb : ∀ b ∈ data, b < 256) :
    (∀ v n, dec data = some (v, n) → v < 2 ^ 32) ∧ (data ≠ [] → dec data = none → decContents data = none) :=
  ⟨fun v n h => Fr.dec_lt data v n hb h, fun hne h => Fr.bad_varint_rejected data hne h⟩

/-- "a single-item stream is accepted only if its prefix covers exactly the remaining bytes" -/
theorem single_exact (s c : List Nat) (h : utpDec 1 s = some c) :
    ∃ len hdr, dec s = some (len, hdr) ∧ len = c.length ∧ s.length = hdr + len ∧ s.drop hdr = c :=
  Fr.single_exact s c h

/-- single-item framing round-trips for every version (1 = prefixed, others raw) -/
theorem utp_roundtrip (v : Nat) (d : List Nat) (h : d.length < 2 ^ 32) : utpDec v (utpEnc v d) = some d :=
  Fr.utp_roundtrip v d h

-- non-vacuity: concrete instances of the hypotheses
example : decContents (encContents [[1, 2, 3], [], [9]]) = some [[1, 2, 3], [], [9]] :=
  contents_roundtrip _ (by intro x hx; simp at hx; rcases hx with rfl | rfl | rfl <;> decide)
example : dec [0xff, 0xff, 0xff, 0xff, 0x10] = none := by decide        -- 2^32: rejected
example : dec [0xff, 0xff, 0xff, 0xff, 0x0f] = some (2 ^ 32 - 1, 5) := by decide
example : utpDec 1 [2, 7, 8] = some [7, 8] ∧ utpDec 1 [2, 7, 8, 9] = none ∧ utpDec 1 [3, 7, 8] = none := by decide

/-- the size of a joined stream follows from the item lengths alone: every item contributes its LEB128 prefix and itself -/
theorem stream_length (xs : List (List Nat)) : (encContents xs).length = streamLen (xs.map List.length) :=
  Fr.encContents_length xs

/-- the prefix takes its fifth byte exactly from 2^28 on (every length a 32-bit prefix can carry: below 2^32) -/
theorem prefix_bytes (n : Nat) (h : n < 2 ^ 32) : (2 ^ 28 ≤ n → lebLen n = 5) ∧ (n < 2 ^ 28 → lebLen n ≤ 4) :=
  ⟨fun h1 => Fr.lebLen_five n h1 (by omega), Fr.lebLen_le_four n⟩

example : streamLen [3, 2 ^ 28] = 4 + 2 ^ 28 + 5 := by
  simp only [streamLen]
  rw [Fr.lebLen_small 3 (by omega), Fr.lebLen_five (2 ^ 28) (by omega) (by omega)]

#print axioms contents_roundtrip
#print axioms truncated_never_resplits
#print axioms overlong_prefix_rejected
#print axioms varint_overflow_rejected
#print axioms single_exact
#print axioms utp_roundtrip
#print axioms stream_length
#print axioms prefix_bytes
end Props.C15
