/-! C16 prototype: transfer slots as a counter with idempotent release, under any interleaving of
    acquisitions, exits (each with the `releases` flag read off the code's exit table) and repeated
    `Release()` calls. -/
namespace Pm

structure Offer where
  released : Bool
  done : Bool
deriving DecidableEq, Repr

structure Sys where
  avail : Nat
  offers : List Offer

inductive Step where
  | acquire                              -- TryAcquire(1): a new offer if a slot is free
  | exit (i : Nat) (releases : Bool)     -- offer i leaves through an exit that does / does not call Release
  | again (i : Nat)                      -- Release() called once more (defer + explicit call)

def holding (l : List Offer) : Nat := l.countP (fun o => !o.released)

def releaseAt (l : List Offer) (i : Nat) : List Offer × Bool :=
  match l[i]? with
  | some o => if o.released then (l, false) else (l.set i { o with released := true }, true)
  | none => (l, false)

def markDone (l : List Offer) (i : Nat) : List Offer :=
  match l[i]? with | some o => l.set i { o with done := true } | none => l

def step (s : Sys) : Step → Sys
  | .acquire => if s.avail > 0 then { avail := s.avail - 1, offers := s.offers ++ [⟨false, false⟩] } else s
  | .exit i rel =>
    if rel then
      { avail := if (releaseAt s.offers i).2 then s.avail + 1 else s.avail,
        offers := markDone (releaseAt s.offers i).1 i }
    else { s with offers := markDone s.offers i }
  | .again i =>
    { avail := if (releaseAt s.offers i).2 then s.avail + 1 else s.avail, offers := (releaseAt s.offers i).1 }

def Inv (limit : Nat) (s : Sys) : Prop := s.avail + holding s.offers = limit

theorem holding_set_released (l : List Offer) (i : Nat) (o : Offer) (h : l[i]? = some o) (hr : o.released = false) :
    holding (l.set i { o with released := true }) + 1 = holding l := by
  induction l generalizing i with
  | nil => simp at h
  | cons x xs ih =>
    cases i with
    | zero =>
      simp at h; subst h
      simp [holding, List.countP_cons, hr]
    | succ i =>
      simp only [List.getElem?_cons_succ] at h
      have := ih i h
      simp only [holding, List.set_cons_succ, List.countP_cons] at this ⊢
      omega

theorem holding_set_done (l : List Offer) (i : Nat) (o : Offer) (h : l[i]? = some o) :
    holding (l.set i { o with done := true }) = holding l := by
  induction l generalizing i with
  | nil => simp at h
  | cons x xs ih =>
    cases i with
    | zero => simp at h; subst h; simp [holding, List.countP_cons]
    | succ i =>
      simp only [List.getElem?_cons_succ] at h
      have := ih i h
      simp only [holding, List.set_cons_succ, List.countP_cons] at this ⊢
      omega

theorem releaseAt_spec (l : List Offer) (i : Nat) :
    holding (releaseAt l i).1 + (if (releaseAt l i).2 then 1 else 0) = holding l := by
  unfold releaseAt
  split
  · rename_i o ho
    split
    · simp
    · rename_i hr
      have := holding_set_released l i o ho (by simpa using hr)
      simp; omega
  · simp

theorem holding_markDone (l : List Offer) (i : Nat) : holding (markDone l i) = holding l := by
  unfold markDone
  split
  · rename_i o ho; exact holding_set_done l i o ho
  · rfl

/-- C16: in every reachable state, slots in use + slots free = the configured limit (so never more
    than the limit in use), whatever the interleaving and however often Release is repeated -/
theorem inv_step (limit : Nat) (s : Sys) (st : Step) (h : Inv limit s) : Inv limit (step s st) := by
  unfold Inv at *
  cases st with
  | acquire =>
    simp only [step]
    split
    · simp only [holding, List.countP_append] at h ⊢
      simp at h ⊢; omega
    · exact h
  | exit i rel =>
    simp only [step]
    have hs := releaseAt_spec s.offers i
    split
    · simp only [holding_markDone]
      split <;> simp_all <;> omega
    · simp only [holding_markDone]; exact h
  | again i =>
    simp only [step]
    have hs := releaseAt_spec s.offers i
    split <;> simp_all <;> omega

theorem inv_reachable (limit : Nat) (steps : List Step) :
    Inv limit (steps.foldl step { avail := limit, offers := [] }) := by
  suffices h : ∀ s, Inv limit s → Inv limit (steps.foldl step s) from h _ (by simp [Inv, holding])
  induction steps with
  | nil => intro s h; exact h
  | cons st rest ih => intro s h; exact ih _ (inv_step limit s st h)

/-- never more transfers holding a slot than the limit -/
theorem held_le_limit (limit : Nat) (steps : List Step) :
    holding (steps.foldl step { avail := limit, offers := [] }).offers ≤ limit := by
  have := inv_reachable limit steps
  unfold Inv at this
  omega

/-- once every offer has released (which is what "every exit of the table releases" gives),
    the full number of slots is available again -/
theorem quiescent_full (limit : Nat) (steps : List Step)
    (h : ∀ o ∈ (steps.foldl step { avail := limit, offers := [] }).offers, o.released = true) :
    (steps.foldl step { avail := limit, offers := [] }).avail = limit := by
  have := inv_reachable limit steps
  unfold Inv at this
  have h0 : holding (steps.foldl step { avail := limit, offers := [] }).offers = 0 := by
    unfold holding
    rw [List.countP_eq_zero]
    intro o ho
    simp [h o ho]
  omega

#print axioms held_le_limit
#print axioms quiescent_full
end Pm
