import Shisui.Framing
namespace Fr

/-- all bytes of a varint but the last carry the continuation bit, so a cut varint never decodes -/
theorem decAux_cut (v : Nat) : ∀ (i s acc : Nat) (p q : List Nat), p ++ q = enc v → q ≠ [] →
    decAux i s acc p = none := by
  induction v using Nat.strongRecOn with
  | _ v ih =>
    intro i s acc p q hpq hq
    rw [enc] at hpq
    split at hpq
    · -- enc v = [v]
      cases p with
      | nil => simp [decAux]
      | cons b bs =>
        simp only [List.cons_append, List.cons.injEq] at hpq
        have : bs ++ q = [] := hpq.2
        simp at this
        exact absurd this.2 hq
    · cases p with
      | nil => simp [decAux]
      | cons b bs =>
        simp only [List.cons_append, List.cons.injEq] at hpq
        obtain ⟨rfl, hrest⟩ := hpq
        simp only [decAux]
        split
        · rfl
        · have : ¬ (v % 128 + 128 < 128) := by omega
          simp only [this, if_false]
          exact ih (v / 128) (by omega) _ _ _ bs q hrest hq

theorem dec_cut (v : Nat) (p q : List Nat) (hpq : p ++ q = enc v) (hq : q ≠ []) : dec p = none :=
  decAux_cut v 0 0 0 p q hpq hq

/-- header complete, body cut: the length check rejects -/
theorem decSingle_cutBody (n : Nat) (y : List Nat) (hn : n < 2 ^ 32) (hy : y.length < n) :
    decSingle (enc n ++ y) = none := by
  unfold decSingle
  rw [dec_enc n y hn]
  simp only [List.length_append]
  have : (enc n).length + y.length < (enc n).length + n := by omega
  simp [this]

/-- C15: a truncated stream is rejected or yields a prefix of the items — it is never split differently -/
theorem prefix_never_resplits (xs : List (List Nat)) (h : ∀ x ∈ xs, x.length < 2 ^ 32) :
    ∀ p t, p ++ t = encContents xs → decContents p = none ∨ ∃ k, decContents p = some (xs.take k) := by
  induction xs with
  | nil =>
    intro p t hp
    simp only [encContents, List.append_eq_nil_iff] at hp
    right; refine ⟨0, ?_⟩
    rw [hp.1, decContents]; simp
  | cons x xs ih =>
    intro p t hp
    by_cases hp0 : p = []
    · right; refine ⟨0, ?_⟩; rw [hp0, decContents]; simp
    · have hx := h x (List.mem_cons_self ..)
      simp only [encContents] at hp
      rcases List.append_eq_append_iff.mp hp with ⟨a', ha, hb⟩ | ⟨c', ha, hb⟩
      · -- p is a prefix of encSingle x
        by_cases ha' : a' = []
        · -- p = encSingle x exactly
          subst ha'
          simp only [List.append_nil] at ha
          right; refine ⟨1, ?_⟩
          rw [decContents]
          simp only [hp0, dite_false]
          have hs := decSingle_enc x [] hx
          simp only [List.append_nil] at hs
          split
          · rename_i hnone; rw [← ha, hs] at hnone; simp at hnone
          · rename_i y rest hsome
            rw [← ha, hs] at hsome
            simp only [Option.some.injEq, Prod.mk.injEq] at hsome
            obtain ⟨rfl, rfl⟩ := hsome
            rw [decContents]; simp
        · left
          rw [decContents]
          simp only [hp0, dite_false]
          have hnone : decSingle p = none := by
            unfold encSingle at ha
            rcases List.append_eq_append_iff.mp ha.symm with ⟨b', hb1, hb2⟩ | ⟨d', hd1, hd2⟩
            · -- enc n = p ++ b'  : p inside the header (b' may be empty)
              by_cases hb' : b' = []
              · subst hb'
                simp only [List.append_nil] at hb1
                simp only [List.nil_append] at hb2
                -- p = enc n, body entirely missing (x = a' ≠ [])
                have : decSingle (enc x.length ++ []) = none :=
                  decSingle_cutBody x.length [] hx (by
                    simp only [List.length_nil]
                    rw [← hb2]; exact List.length_pos_iff.mpr ha')
                simpa [← hb1] using this
              · unfold decSingle
                rw [dec_cut x.length p b' hb1.symm hb']
            · -- p = enc n ++ d', x = d' ++ a'
              rw [hd1]
              apply decSingle_cutBody x.length d' hx
              rw [hd2]
              simp only [List.length_append]
              have := List.length_pos_iff.mpr ha'
              omega
          split
          · rfl
          · rename_i y rest hsome; rw [hnone] at hsome; simp at hsome
      · -- p = encSingle x ++ c', c' prefix of the rest
        rw [decContents]
        simp only [hp0, dite_false]
        have hs := decSingle_enc x c' hx
        split
        · rename_i hnone; rw [ha, hs] at hnone; simp at hnone
        · rename_i y rest hsome
          rw [ha, hs] at hsome
          simp only [Option.some.injEq, Prod.mk.injEq] at hsome
          obtain ⟨rfl, rfl⟩ := hsome
          rcases ih (fun z hz => h z (List.mem_cons_of_mem _ hz)) c' t hb.symm with hn | ⟨k, hk⟩
          · left; simp [hn]
          · right; exact ⟨k + 1, by simp [hk]⟩

#print axioms prefix_never_resplits
end Fr
