/-! C20: the radius cache under ping / pong reports (`processPing`, `processPongPayload`, `updateRadiusCacheIfNeeded`).
    A report is applied only while the peer is a table entry or replacement, only for payload types the network supports,
    and only if the payload decodes. -/
namespace Rc

structure Report where
  member : Bool        -- peer is in the table or its replacement list when the report is processed
  supported : Bool     -- payload type is a radius-carrying type supported by this network
  wellFormed : Bool    -- payload decodes
  radius : Nat
deriving DecidableEq, Repr

def applies (r : Report) : Bool := r.member && r.supported && r.wellFormed

/-- cache entry of one peer after one report -/
def step (c : Option Nat) (r : Report) : Option Nat := if applies r then some r.radius else c

def run (c : Option Nat) (rs : List Report) : Option Nat := rs.foldl step c

/-- "The radius used for a node is the one it most recently reported in a ping or pong, in any supported payload type":
    after any sequence of reports processed in order, the cache holds the radius of the LAST report that applies, and is
    unchanged if none applies -/
theorem radius_is_last_report (c : Option Nat) (rs : List Report) :
    run c rs = match (rs.filter applies).getLast? with
      | some r => some r.radius
      | none => c := by
  induction rs generalizing c with
  | nil => rfl
  | cons r rs ih =>
    simp only [run, List.foldl_cons] at ih ⊢
    rw [ih]
    simp only [List.filter_cons, step]
    by_cases ha : applies r = true
    · simp only [ha, if_true]
      cases h : (rs.filter applies).getLast? with
      | none =>
        have : rs.filter applies = [] := List.getLast?_eq_none_iff.mp h
        simp [this]
      | some x =>
        have hne : rs.filter applies ≠ [] := by intro h0; rw [h0] at h; simp at h
        rw [List.getLast?_cons_of_ne_nil hne] at *
        simp [h]
    · simp only [ha, if_false]
      simp [ha]

/-- an unknown peer (never a member when a report was processed) keeps an unknown radius -/
theorem unknown_stays_unknown (rs : List Report) (h : ∀ r ∈ rs, r.member = false) : run none rs = none := by
  rw [radius_is_last_report]
  have : rs.filter applies = [] := by
    apply List.filter_eq_nil_iff.mpr
    intro r hr
    simp [applies, h r hr]
  simp [this]

#print axioms radius_is_last_report
end Rc
