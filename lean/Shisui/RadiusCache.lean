/-! C20: the radius cache under ping / pong reports (`processPing`, `processPongPayload`, `updateRadiusCacheIfNeeded`).
    A report is applied only while the peer is a table entry or replacement, only for payload types the network supports,
    and only if the payload decodes. -/
namespace Rc

structure Report where
  member : Bool        -- peer is in the table or its replacement list when the report is processed
  supported : Bool     -- payload type is a radius-carrying type supported by this network
  wellFormed : Bool    -- payload decodes
  radius : Nat
deriving DecidableEq, Repr

def applies (r : Report) : Bool := r.member && r.supported && r.wellFormed

/-- cache entry of one peer after one report -/
def step (c : Option Nat) (r : Report) : Option Nat := if applies r then some r.radius else c

def run (c : Option Nat) (rs : List Report) : Option Nat := rs.foldl step c

/-- "The radius used for a node is the one it most recently reported in a ping or pong, in any supported payload type":
    after any sequence of reports processed in order, the cache holds the radius of the LAST report that applies, and is
    unchanged if none applies -/
theorem radius_is_last_report (c : Option Nat) (rs : List Report) :
    run c rs = match (rs.filter applies).getLast? with
      | some r => some r.radius
      | none => c := by
  induction rs generalizing c with
  | nil => rfl
  | cons r rs ih =>
    simp only [run, List.foldl_cons] at ih ⊢
    rw [ih]
    simp only [List.filter_cons, step]
    by_cases ha : applies r = true
    · simp only [ha, if_true]
      cases h : (rs.filter applies).getLast? with
      | none =>
        have : rs.filter applies = [] := List.getLast?_eq_none_iff.mp h
        simp [this]
      | some x =>
        have hne : rs.filter applies ≠ [] := by intro h0; rw [h0] at h; simp at h
        rw [List.getLast?_cons_of_ne_nil hne] at *
        simp [h]
    · simp only [ha, if_false]
      simp [ha]

/-- an unknown peer (never a member when a report was processed) keeps an unknown radius -/
theorem unknown_stays_unknown (rs : List Report) (h : ∀ r ∈ rs, r.member = false) : run none rs = none := by
  rw [radius_is_last_report]
  have : rs.filter applies = [] := by
    apply List.filter_eq_nil_iff.mpr
    intro r hr
    simp [applies, h r hr]
  simp [this]

/-! ### with the entry point that adds a record by hand (`AddEnr`)
    A node that ENTERS the table by the call starts with the maximum radius; for a node that is in the table already the
    call changes nothing (seeded change C20g made it reset the radius). -/
inductive Ev where
  | report (r : Report)
  | addEnr (entered : Bool)      -- entered = the node was not in the table before and is an entry afterwards
deriving Repr

def maxRadius : Nat := 2 ^ 256 - 1

def stepEv (c : Option Nat) : Ev → Option Nat
  | .report r => step c r
  | .addEnr entered => if entered then some maxRadius else c

def runEv (c : Option Nat) (es : List Ev) : Option Nat := es.foldl stepEv c

/-- the last event that sets the cache decides it: an applying report sets the reported radius, an entering AddEnr the maximum -/
def sets : Ev → Option Nat
  | .report r => if applies r then some r.radius else none
  | .addEnr entered => if entered then some maxRadius else none

theorem stepEv_sets (c : Option Nat) (e : Ev) : stepEv c e = match sets e with | some v => some v | none => c := by
  cases e with
  | report r => simp only [stepEv, step, sets]; split <;> rfl
  | addEnr entered => simp only [stepEv, sets]; split <;> rfl

theorem runEv_last_setter (c : Option Nat) (es : List Ev) :
    runEv c es = match (es.filterMap sets).getLast? with
      | some v => some v
      | none => c := by
  induction es generalizing c with
  | nil => rfl
  | cons e es ih =>
    simp only [runEv, List.foldl_cons] at ih ⊢
    rw [ih, stepEv_sets]
    simp only [List.filterMap_cons]
    cases hs : sets e with
    | none => simp
    | some v =>
      simp only
      cases h : (es.filterMap sets).getLast? with
      | none =>
        have : es.filterMap sets = [] := List.getLast?_eq_none_iff.mp h
        simp [this]
      | some x =>
        have hne : es.filterMap sets ≠ [] := by intro h0; rw [h0] at h; simp at h
        rw [List.getLast?_cons_of_ne_nil hne]
        simp [h]

/-- AddEnr for a node that is already in the table never changes what it last reported -/
theorem addEnr_known_keeps_radius (c : Option Nat) : stepEv c (.addEnr false) = c := rfl

#print axioms radius_is_last_report
#print axioms runEv_last_setter
end Rc
