import Shisui.Ssz.WireLemmas
/-! # C14: slot-level and container-level theorems of the schema-driven codec -/
namespace Wire
open Sz

/-! ## one slot -/

/-- the raw bytes handed to the decoder of a fixed slot have the slot's size -/
def rawLenOk (sl : Slot) (raw : List Nat) : Prop :=
  match sl.segS with
  | .fixed n => raw.length = n
  | .off => True

theorem validBits_len (db : Nat) (b : List Nat) (h : validBits db b = true) : b.length ≤ db / 8 + 1 := by
  unfold validBits at h
  split at h
  · simp at h
  · simp only [Bool.and_eq_true, decide_eq_true_eq] at h
    exact h.1.1

/-- exact behaviour of a slot decoder on what the slot encoder wrote -/
theorem decSlot_raw (zt : Bool) (sl : Slot) (x : SVal) (hc : sl.consistent = true) (he : encOk sl x = true)
    (hsz : x.isVar = true → x.raw.length < 2 ^ 32) :
    decSlot zt sl x.raw = if inLim sl x then some x else none := by
  cases sl with
  | fix n =>
    cases x <;> simp [encOk] at he
    simp [decSlot, inLim, SVal.raw, he]
  | uint n =>
    cases x <;> simp [encOk] at he
    rename_i m v
    obtain ⟨rfl, hv⟩ := he
    simp [decSlot, inLim, SVal.raw, hv, leNat_leBytes m v hv]
  | fvec c s =>
    cases x <;> simp [encOk] at he
    rename_i xs
    obtain ⟨rfl, hl⟩ := he
    have hl' := (allLen_iff xs s).1 hl
    simp [decSlot, inLim, SVal.raw, hl, chunks_flatten s xs hl']
  | var k =>
    cases k with
    | bytes em dm =>
      cases x <;> simp [encOk] at he
      rename_i b
      simp only [decSlot, inLim, SVal.raw]
      by_cases hle : b.length ≤ dm <;> simp [hle]
    | vec s em dm =>
      cases x <;> simp [encOk] at he
      rename_i xs
      obtain ⟨hn, hl⟩ := he
      have hl' := (allLen_iff xs s).1 hl
      simp only [Slot.consistent, Bool.and_eq_true, decide_eq_true_eq] at hc
      have hlen := flatten_length_const xs s hl'
      have hmod : xs.flatten.length % s = 0 := by rw [hlen]; exact Nat.mul_mod_left ..
      have hdiv : xs.flatten.length / s = xs.length := by rw [hlen]; exact Nat.mul_div_cancel _ hc.1
      simp only [decSlot, inLim, SVal.raw, hmod, hdiv, ne_eq, not_true_eq_false, if_false, hl, Bool.and_true,
        chunks_flatten s xs hl']
      by_cases hle : xs.length ≤ dm
      · have : ¬ xs.length > dm := by omega
        simp [hle, this]
      · have : xs.length > dm := by omega
        simp [hle, this]
    | dyn en ei dn di =>
      cases x <;> simp [encOk] at he
      rename_i xs
      have hs := hsz rfl
      simp only [SVal.raw] at hs
      simp only [decSlot, inLim, SVal.raw, decodeDynQ_encode zt dn xs hs]
      by_cases hle : xs.length ≤ dn
      · simp only [hle, if_true, decide_true, Bool.true_and]
      · simp [hle]
    | bits eb db =>
      cases x <;> simp [encOk] at he
      rename_i b
      simp only [decSlot, inLim, SVal.raw]
      by_cases hv : validBits db b = true <;> simp [hv]
    | nibbles m =>
      cases x <;> simp [encOk] at he
      rename_i ns
      have hn := (allNib_iff ns).1 he
      simp only [decSlot, inLim, SVal.raw, decNibbles_enc m ns hn, he, Bool.and_true]
      by_cases hle : ns.length ≤ m <;> simp [hle]

/-- whatever a slot decoder returns is within the declared limits and of the slot's kind -/
theorem decSlot_inLim (zt : Bool) (sl : Slot) (raw : List Nat) (x : SVal) (h : decSlot zt sl raw = some x)
    (hl : rawLenOk sl raw) (hb : Bytes raw) : inLim sl x = true ∧ x.isVar = sl.isVar := by
  cases sl with
  | fix n =>
    simp only [decSlot, Option.some.injEq] at h; subst h
    simp only [rawLenOk, Slot.segS] at hl
    simp [inLim, hl, SVal.isVar, Slot.isVar]
  | uint n =>
    simp only [decSlot, Option.some.injEq] at h; subst h
    simp only [rawLenOk, Slot.segS] at hl
    have := leNat_lt raw hb
    rw [hl] at this
    simp [inLim, this, SVal.isVar, Slot.isVar]
  | fvec c s =>
    simp only [decSlot, Option.some.injEq] at h; subst h
    simp only [rawLenOk, Slot.segS] at hl
    have h2 := (allLen_iff (chunks s c raw) s).2 (chunks_item_length s c raw hl)
    simp [inLim, chunks_length, h2, SVal.isVar, Slot.isVar]
  | var k =>
    cases k with
    | bytes em dm =>
      simp only [decSlot] at h
      split at h
      · simp only [Option.some.injEq] at h; subst h
        simp_all [inLim, SVal.isVar, Slot.isVar]
      · simp at h
    | vec s em dm =>
      simp only [decSlot] at h
      split at h
      · simp at h
      · rename_i hmod
        split at h
        · simp at h
        · rename_i hmax
          simp only [Option.some.injEq] at h; subst h
          have hmod' : raw.length % s = 0 := by simpa using hmod
          have hlen : raw.length = raw.length / s * s := (Nat.div_mul_cancel (Nat.dvd_of_mod_eq_zero hmod')).symm
          have h2 := (allLen_iff _ s).2 (chunks_item_length s (raw.length / s) raw hlen)
          have : raw.length / s ≤ dm := by omega
          simp [inLim, chunks_length, h2, this, SVal.isVar, Slot.isVar]
    | dyn en ei dn di =>
      simp only [decSlot] at h
      split at h
      · simp at h
      · rename_i xs hd
        split at h
        · rename_i hall
          simp only [Option.some.injEq] at h; subst h
          have := decodeDynQ_le zt dn raw xs hd
          simp [inLim, this, hall, SVal.isVar, Slot.isVar]
        · simp at h
    | bits eb db =>
      simp only [decSlot] at h
      split at h
      · rename_i hv
        simp only [Option.some.injEq] at h; subst h
        simp [inLim, hv, SVal.isVar, Slot.isVar]
      · simp at h
    | nibbles m =>
      simp only [decSlot] at h
      split at h
      · simp at h
      · rename_i ns hd
        simp only [Option.some.injEq] at h; subst h
        obtain ⟨a, b, _⟩ := decNibbles_sound m raw ns hb hd
        simp [inLim, a, (allNib_iff ns).2 b, SVal.isVar, Slot.isVar]

/-- canonicity of one slot: what was decoded re-encodes to the raw bytes (ideal list decoder, or no list) -/
theorem decSlot_canon (zt : Bool) (sl : Slot) (raw : List Nat) (x : SVal) (h : decSlot zt sl raw = some x)
    (hl : rawLenOk sl raw) (hb : Bytes raw) (hq : zt = false ∨ sl.noDyn = true) : x.raw = raw := by
  cases sl with
  | fix n => simp only [decSlot, Option.some.injEq] at h; subst h; rfl
  | uint n =>
    simp only [decSlot, Option.some.injEq] at h; subst h
    simp only [rawLenOk, Slot.segS] at hl
    simp only [SVal.raw]
    rw [← hl]; exact leBytes_leNat raw hb
  | fvec c s =>
    simp only [decSlot, Option.some.injEq] at h; subst h
    simp only [rawLenOk, Slot.segS] at hl
    exact flatten_chunks s c raw hl
  | var k =>
    cases k with
    | bytes em dm =>
      simp only [decSlot] at h
      split at h
      · simp only [Option.some.injEq] at h; subst h; rfl
      · simp at h
    | vec s em dm =>
      simp only [decSlot] at h
      split at h
      · simp at h
      · rename_i hmod
        split at h
        · simp at h
        · simp only [Option.some.injEq] at h; subst h
          have hmod' : raw.length % s = 0 := by simpa using hmod
          exact flatten_chunks s _ raw (Nat.div_mul_cancel (Nat.dvd_of_mod_eq_zero hmod')).symm
    | dyn en ei dn di =>
      have hz : zt = false := by
        rcases hq with h1 | h1
        · exact h1
        · simp [Slot.noDyn] at h1
      subst hz
      simp only [decSlot] at h
      split at h
      · simp at h
      · rename_i xs hd
        split at h
        · simp only [Option.some.injEq] at h; subst h
          exact decodeDynQ_canonical dn raw xs hb hd
        · simp at h
    | bits eb db =>
      simp only [decSlot] at h
      split at h
      · simp only [Option.some.injEq] at h; subst h; rfl
      · simp at h
    | nibbles m =>
      simp only [decSlot] at h
      split at h
      · simp at h
      · rename_i ns hd
        simp only [Option.some.injEq] at h; subst h
        exact (decNibbles_sound m raw ns hb hd).2.2

/-- with consistent limits an in-limit value passes the encoder's checks -/
theorem inLim_encOk (sl : Slot) (x : SVal) (hc : sl.consistent = true) (h : inLim sl x = true) :
    encOk sl x = true := by
  cases sl with
  | fix n => cases x <;> simp_all [inLim, encOk]
  | uint n => cases x <;> simp_all [inLim, encOk]
  | fvec c s => cases x <;> simp_all [inLim, encOk]
  | var k =>
    cases k with
    | bytes em dm =>
      cases x <;> simp [inLim] at h
      simp only [Slot.consistent, decide_eq_true_eq] at hc
      simp only [encOk, decide_eq_true_eq]; omega
    | vec s em dm =>
      cases x <;> simp [inLim] at h
      simp only [Slot.consistent, Bool.and_eq_true, decide_eq_true_eq] at hc
      simp only [encOk, Bool.and_eq_true, decide_eq_true_eq]
      exact ⟨by omega, h.2⟩
    | dyn en ei dn di =>
      cases x <;> simp [inLim] at h
      rename_i xs
      simp only [Slot.consistent, Bool.and_eq_true, decide_eq_true_eq] at hc
      simp only [encOk, Bool.and_eq_true, decide_eq_true_eq]
      refine ⟨by omega, ?_⟩
      rw [allLe_iff]
      intro y hy
      have := (allLe_iff xs di).1 h.2 y hy
      omega
    | bits eb db =>
      cases x <;> simp [inLim] at h
      simp only [Slot.consistent, decide_eq_true_eq] at hc
      have := validBits_len _ _ h
      simp only [encOk, decide_eq_true_eq]; omega
    | nibbles m =>
      cases x <;> simp [inLim] at h
      simp only [encOk]; exact h.2

theorem inLim_shape (sl : Slot) (x : SVal) (h : inLim sl x = true) : shape sl x = true := by
  cases sl with
  | fix n => cases x <;> simp_all [inLim, shape]
  | uint n => cases x <;> simp_all [inLim, shape]
  | fvec c s => cases x <;> simp_all [inLim, shape]
  | var k => cases k <;> cases x <;> simp_all [inLim, shape]

theorem encOk_seg (sl : Slot) (x : SVal) (he : encOk sl x = true) :
    (segOf x).schema = sl.segS ∧ x.isVar = sl.isVar := by
  cases sl with
  | fix n =>
    cases x <;> simp [encOk] at he
    simp [segOf, SVal.isVar, Seg.schema, Slot.segS, SVal.raw, he, Slot.isVar]
  | uint n =>
    cases x <;> simp [encOk] at he
    obtain ⟨rfl, _⟩ := he
    simp [segOf, SVal.isVar, Seg.schema, Slot.segS, SVal.raw, leBytes_length, Slot.isVar]
  | fvec c s =>
    cases x <;> simp [encOk] at he
    rename_i xs
    obtain ⟨rfl, hl⟩ := he
    have := flatten_length_const xs s ((allLen_iff xs s).1 hl)
    simp [segOf, SVal.isVar, Seg.schema, Slot.segS, SVal.raw, this, Slot.isVar]
  | var k =>
    cases k <;> cases x <;> simp [encOk] at he <;>
      simp [segOf, SVal.isVar, Seg.schema, Slot.segS, Slot.isVar]

/-! ## lists of slots -/

theorem rawFields_toC (v : List SVal) :
    rawFields (v.map segOf) ((v.filter SVal.isVar).map SVal.raw) = some (v.map SVal.raw) := by
  induction v with
  | nil => rfl
  | cons x r ih =>
    cases hx : x.isVar with
    | true => simp [segOf, hx, rawFields, List.filter_cons, ih]
    | false => simp [segOf, hx, rawFields, List.filter_cons, ih]

theorem schema_toC (s : List Slot) : ∀ (v : List SVal), all2 encOk s v = true →
    (v.map segOf).map Seg.schema = s.map Slot.segS ∧
    nOff ((v.map segOf).map Seg.schema) = ((v.filter SVal.isVar).map SVal.raw).length := by
  induction s with
  | nil => intro v h; cases v with
    | nil => simp [nOff]
    | cons _ _ => simp [all2] at h
  | cons sl s ih =>
    intro v h
    cases v with
    | nil => simp [all2] at h
    | cons x r =>
      simp only [all2, Bool.and_eq_true] at h
      obtain ⟨h1, h2⟩ := ih r h.2
      obtain ⟨e1, e2⟩ := encOk_seg sl x h.1
      refine ⟨by simp [e1, h1], ?_⟩
      simp only [List.map_cons, e1]
      cases sl with
      | var k =>
        have : x.isVar = true := by simpa [Slot.isVar] using e2
        simp only [Slot.segS, nOff, List.filter_cons, this, if_true, List.map_cons, List.length_cons]
        rw [h2]; omega
      | fix n =>
        have : x.isVar = false := by simpa [Slot.isVar] using e2
        simp only [Slot.segS, nOff, List.filter_cons, this, Bool.false_eq_true, if_false]
        exact h2
      | uint n =>
        have : x.isVar = false := by simpa [Slot.isVar] using e2
        simp only [Slot.segS, nOff, List.filter_cons, this, Bool.false_eq_true, if_false]
        exact h2
      | fvec c sz =>
        have : x.isVar = false := by simpa [Slot.isVar] using e2
        simp only [Slot.segS, nOff, List.filter_cons, this, Bool.false_eq_true, if_false]
        exact h2

theorem decAll_raw (zt : Bool) (s : List Slot) : ∀ (v : List SVal), all2 encOk s v = true →
    s.all Slot.consistent = true → (∀ x ∈ v, x.isVar = true → x.raw.length < 2 ^ 32) →
    decAll zt s (v.map SVal.raw) = if all2 inLim s v then some v else none := by
  induction s with
  | nil => intro v h _ _; cases v with
    | nil => simp [decAll, all2]
    | cons _ _ => simp [all2] at h
  | cons sl s ih =>
    intro v h hc hsz
    cases v with
    | nil => simp [all2] at h
    | cons x r =>
      simp only [all2, Bool.and_eq_true] at h
      simp only [List.all_cons, Bool.and_eq_true] at hc
      have hx := decSlot_raw zt sl x hc.1 h.1 (hsz x (List.mem_cons_self ..))
      have hr := ih r h.2 hc.2 (fun y hy => hsz y (List.mem_cons_of_mem _ hy))
      simp only [List.map_cons, decAll, hx, all2]
      by_cases h1 : inLim sl x = true
      · simp only [h1, if_true, hr, Bool.true_and]
        by_cases h2 : all2 inLim s r = true
        · simp [h2]
        · simp [h2]
      · simp [h1]

theorem mem_le_total (vars : List (List Nat)) (y : List Nat) (h : y ∈ vars) : y.length ≤ total vars := by
  induction vars with
  | nil => simp at h
  | cons a r ih =>
    rw [total_cons]
    rcases List.mem_cons.1 h with rfl | h'
    · omega
    · have := ih h'; omega

theorem encodeC_length (c : CVal) (hn : nOff (c.segs.map Seg.schema) = c.vars.length) :
    (encodeC c).length = fixedLen (c.segs.map Seg.schema) + total c.vars := by
  unfold encodeC
  rw [List.length_append, encFixed_length c.segs _ (by rw [offsetsOf_length, hn]; exact Nat.le_refl _)]
  rfl

/-- **exactness**: decoding what the encoder wrote gives the value back when it is within the declared limits
    and is refused otherwise (either switch) -/
theorem decodeSlots_encode (zt : Bool) (s : List Slot) (v : List SVal) (b : List Nat)
    (hc : s.all Slot.consistent = true) (he : encodeSlots s v = some b) (hsz : b.length < 2 ^ 32) :
    decodeSlots zt s b = if all2 inLim s v then some v else none := by
  unfold encodeSlots at he
  split at he
  · rename_i hok
    simp only [Option.some.injEq] at he
    subst he
    obtain ⟨h1, h2⟩ := schema_toC s v hok
    have hn : nOff ((toC v).segs.map Seg.schema) = (toC v).vars.length := h2
    have hlen := encodeC_length (toC v) hn
    have hsz' : fixedLen ((toC v).segs.map Seg.schema) + total (toC v).vars < 2 ^ 32 := by omega
    unfold decodeSlots
    have hs : s.map Slot.segS = (toC v).segs.map Seg.schema := h1.symm
    rw [hs, decodeC_encodeC (toC v) hn hsz']
    simp only
    have hrf : rawFields (toC v).segs (toC v).vars = some (v.map SVal.raw) := rawFields_toC v
    rw [hrf]
    simp only
    apply decAll_raw zt s v hok hc
    intro x hx hv
    have hmem : x.raw ∈ (toC v).vars := by
      simp only [toC, List.mem_map, List.mem_filter]
      exact ⟨x, ⟨hx, hv⟩, rfl⟩
    have := mem_le_total _ _ hmem
    omega
  · simp at he

/-! ## decoding direction -/

theorem decAll_sound (zt : Bool) (s : List Slot) :
    ∀ (segs : List Seg) (vars rs : List (List Nat)) (v : List SVal),
      segs.map Seg.schema = s.map Slot.segS → rawFields segs vars = some rs → decAll zt s rs = some v →
      (∀ b, Seg.fixed b ∈ segs → Bytes b) → (∀ y ∈ vars, Bytes y) →
      all2 inLim s v = true ∧
      ((zt = false ∨ s.all Slot.noDyn = true) → v.map segOf = segs ∧ (v.filter SVal.isVar).map SVal.raw = vars) := by
  induction s with
  | nil =>
    intro segs vars rs v hs hr hd _ _
    have : segs = [] := by simpa using hs
    subst this
    cases vars with
    | nil =>
      simp only [rawFields, Option.some.injEq] at hr; subst hr
      simp only [decAll, Option.some.injEq] at hd; subst hd
      simp [all2]
    | cons _ _ => simp [rawFields] at hr
  | cons sl s ih =>
    intro segs vars rs v hs hr hd hbf hbv
    cases segs with
    | nil => simp at hs
    | cons sg segs' =>
      simp only [List.map_cons, List.cons.injEq] at hs
      obtain ⟨hsg, hs'⟩ := hs
      cases sg with
      | fixed b =>
        simp only [rawFields] at hr
        cases hrr : rawFields segs' vars with
        | none => simp [hrr] at hr
        | some rs' =>
          simp only [hrr, Option.map_some, Option.some.injEq] at hr
          subst hr
          simp only [decAll] at hd
          cases hdx : decSlot zt sl b with
          | none => simp [hdx] at hd
          | some x =>
            simp only [hdx] at hd
            cases hdr : decAll zt s rs' with
            | none => simp [hdr] at hd
            | some v' =>
              simp only [hdr, Option.map_some, Option.some.injEq] at hd
              subst hd
              have hbb : Bytes b := hbf b (List.mem_cons_self ..)
              have hl : rawLenOk sl b := by
                simp only [rawLenOk, ← hsg, Seg.schema]
              have hnv : sl.isVar = false := by
                cases sl <;> simp_all [Slot.segS, Seg.schema, Slot.isVar]
              obtain ⟨i1, i2⟩ := decSlot_inLim zt sl b x hdx hl hbb
              obtain ⟨r1, r2⟩ := ih segs' vars rs' v' hs' hrr hdr
                (fun b' hb' => hbf b' (List.mem_cons_of_mem _ hb')) hbv
              refine ⟨by simp [all2, i1, r1], ?_⟩
              intro hq
              have hq1 : zt = false ∨ sl.noDyn = true := by
                rcases hq with h | h
                · exact Or.inl h
                · simp only [List.all_cons, Bool.and_eq_true] at h; exact Or.inr h.1
              have hq2 : zt = false ∨ s.all Slot.noDyn = true := by
                rcases hq with h | h
                · exact Or.inl h
                · simp only [List.all_cons, Bool.and_eq_true] at h; exact Or.inr h.2
              have hraw := decSlot_canon zt sl b x hdx hl hbb hq1
              obtain ⟨c1, c2⟩ := r2 hq2
              have hxv : x.isVar = false := by rw [i2, hnv]
              simp [segOf, hxv, hraw, c1, c2, List.filter_cons]
      | off =>
        cases vars with
        | nil => simp [rawFields] at hr
        | cons y vars' =>
          simp only [rawFields] at hr
          cases hrr : rawFields segs' vars' with
          | none => simp [hrr] at hr
          | some rs' =>
            simp only [hrr, Option.map_some, Option.some.injEq] at hr
            subst hr
            simp only [decAll] at hd
            cases hdx : decSlot zt sl y with
            | none => simp [hdx] at hd
            | some x =>
              simp only [hdx] at hd
              cases hdr : decAll zt s rs' with
              | none => simp [hdr] at hd
              | some v' =>
                simp only [hdr, Option.map_some, Option.some.injEq] at hd
                subst hd
                have hby : Bytes y := hbv y (List.mem_cons_self ..)
                have hl : rawLenOk sl y := by
                  simp only [rawLenOk, ← hsg, Seg.schema]
                have hnv : sl.isVar = true := by
                  cases sl <;> simp_all [Slot.segS, Seg.schema, Slot.isVar]
                obtain ⟨i1, i2⟩ := decSlot_inLim zt sl y x hdx hl hby
                obtain ⟨r1, r2⟩ := ih segs' vars' rs' v' hs' hrr hdr
                  (fun b' hb' => hbf b' (List.mem_cons_of_mem _ hb'))
                  (fun y' hy' => hbv y' (List.mem_cons_of_mem _ hy'))
                refine ⟨by simp [all2, i1, r1], ?_⟩
                intro hq
                have hq1 : zt = false ∨ sl.noDyn = true := by
                  rcases hq with h | h
                  · exact Or.inl h
                  · simp only [List.all_cons, Bool.and_eq_true] at h; exact Or.inr h.1
                have hq2 : zt = false ∨ s.all Slot.noDyn = true := by
                  rcases hq with h | h
                  · exact Or.inl h
                  · simp only [List.all_cons, Bool.and_eq_true] at h; exact Or.inr h.2
                have hraw := decSlot_canon zt sl y x hdx hl hby hq1
                obtain ⟨c1, c2⟩ := r2 hq2
                have hxv : x.isVar = true := by rw [i2, hnv]
                simp [segOf, hxv, hraw, c1, c2, List.filter_cons]

theorem mem_encFixed (segs : List Seg) : ∀ (offs : List Nat) (b : List Nat), Seg.fixed b ∈ segs →
    ∀ x ∈ b, x ∈ encFixed segs offs := by
  induction segs with
  | nil => intro _ b h; simp at h
  | cons sg r ih =>
    intro offs b h x hx
    cases sg with
    | fixed b' =>
      simp only [encFixed, List.mem_append]
      rcases List.mem_cons.1 h with h1 | h1
      · simp only [Seg.fixed.injEq] at h1; subst h1; exact Or.inl hx
      · exact Or.inr (ih offs b h1 x hx)
    | off =>
      have h1 : Seg.fixed b ∈ r := by
        rcases List.mem_cons.1 h with h1 | h1
        · cases h1
        · exact h1
      cases offs with
      | nil => simp only [encFixed]; exact ih [] b h1 x hx
      | cons o os => simp only [encFixed, List.mem_append]; exact Or.inr (ih os b h1 x hx)

theorem bytes_parts (c : CVal) (hb : Bytes (encodeC c)) :
    (∀ b, Seg.fixed b ∈ c.segs → Bytes b) ∧ (∀ y ∈ c.vars, Bytes y) := by
  constructor
  · intro b hmem x hx
    apply hb
    unfold encodeC
    exact List.mem_append_left _ (mem_encFixed c.segs _ b hmem x hx)
  · intro y hy x hx
    apply hb
    unfold encodeC
    exact List.mem_append_right _ (List.mem_flatten.2 ⟨y, hy, hx⟩)

theorem all2_inLim_encOk (s : List Slot) : ∀ (v : List SVal), s.all Slot.consistent = true →
    all2 inLim s v = true → all2 encOk s v = true := by
  induction s with
  | nil => intro v _ h; cases v <;> simp_all [all2]
  | cons sl s ih =>
    intro v hc h
    cases v with
    | nil => simp [all2] at h
    | cons x r =>
      simp only [all2, Bool.and_eq_true] at h ⊢
      simp only [List.all_cons, Bool.and_eq_true] at hc
      exact ⟨inLim_encOk sl x hc.1 h.1, ih r hc.2 h.2⟩

theorem all2_inLim_shape (s : List Slot) : ∀ (v : List SVal), all2 inLim s v = true → all2 shape s v = true := by
  induction s with
  | nil => intro v h; cases v <;> simp_all [all2]
  | cons sl s ih =>
    intro v h
    cases v with
    | nil => simp [all2] at h
    | cons x r =>
      simp only [all2, Bool.and_eq_true] at h ⊢
      exact ⟨inLim_shape sl x h.1, ih r h.2⟩

/-- everything `UnmarshalSSZ` accepts is within the declared limits; and (ideal list decoder, or no list field)
    re-encodes to exactly the input -/
theorem decodeSlots_sound (zt : Bool) (s : List Slot) (buf : List Nat) (v : List SVal) (hb : Bytes buf)
    (h : decodeSlots zt s buf = some v) :
    all2 inLim s v = true ∧
    (s.all Slot.consistent = true → (zt = false ∨ s.all Slot.noDyn = true) → encodeSlots s v = some buf) := by
  unfold decodeSlots at h
  cases hd : decodeC (s.map Slot.segS) buf with
  | none => simp [hd] at h
  | some c =>
    simp only [hd] at h
    cases hr : rawFields c.segs c.vars with
    | none => simp [hr] at h
    | some rs =>
      simp only [hr] at h
      obtain ⟨hcan, hsch⟩ := decodeC_canonical (s.map Slot.segS) buf c hb hd
      obtain ⟨hbf, hbv⟩ := bytes_parts c (by rw [hcan]; exact hb)
      obtain ⟨r1, r2⟩ := decAll_sound zt s c.segs c.vars rs v hsch hr h hbf hbv
      refine ⟨r1, ?_⟩
      intro hc hq
      obtain ⟨c1, c2⟩ := r2 hq
      have htc : toC v = c := by
        cases c
        simp only [toC, CVal.mk.injEq]
        exact ⟨c1, c2⟩
      unfold encodeSlots
      rw [all2_inLim_encOk s v hc r1, htc, hcan]
      rfl

/-- a container without variable fields encodes to exactly its fixed size -/
theorem encodeSlots_fixed_length (s : List Slot) (v : List SVal) (b : List Nat) (hf : allFixed s = true)
    (he : encodeSlots s v = some b) : b.length = fixedLen (s.map Slot.segS) := by
  unfold encodeSlots at he
  split at he
  · rename_i hok
    simp only [Option.some.injEq] at he
    subst he
    obtain ⟨h1, h2⟩ := schema_toC s v hok
    have hn : nOff ((toC v).segs.map Seg.schema) = (toC v).vars.length := h2
    rw [encodeC_length (toC v) hn]
    have hs : (toC v).segs.map Seg.schema = s.map Slot.segS := h1
    rw [hs]
    have hz : nOff (s.map Slot.segS) = 0 := by
      clear hok h1 h2 hn hs
      induction s with
      | nil => rfl
      | cons sl r ih =>
        simp only [allFixed, List.all_cons, Bool.and_eq_true] at hf
        cases sl <;> simp_all [Slot.isVar, Slot.segS, nOff, allFixed]
    have hv : (toC v).vars = [] := by
      apply List.eq_nil_of_length_eq_zero
      rw [← hn, hs, hz]
    rw [hv]; simp [total]
  · simp at he

end Wire
