import Shisui.Ssz.Wire
/-! # C14: the schemas of shisui's wire messages, ping payloads and content containers

Transcribed from the struct tags and the `MarshalSSZTo` / `UnmarshalSSZ` bodies
(portalwire/types.go, types_encoding.go; portalwire/ping_ext/types.go, basic.go; types/history/*;
history/types*.go; types/beacon/types_encoding.go). Encoder limits and decoder limits are listed
separately where the code has them separately. `big` stands for "the encoder has no check". -/
namespace Wire.Schemas
open Wire

def big : Nat := 2 ^ 32

/-! ## portalwire -/
def ping : Ty := .cont [.uint 8, .uint 2, .var (.bytes 1100 1100)]
def pong : Ty := .cont [.uint 8, .uint 2, .var (.bytes 1100 1100)]
def findNodes : Ty := .cont [.var (.vec 2 256 256)]
def nodes : Ty := .cont [.uint 1, .var (.dyn 32 2048 32 2048)]
def findContent : Ty := .cont [.var (.bytes 2048 2048)]
def content : Ty := .bare (.bytes 2048 2048) 0
def connectionId : Ty := .cont [.fix 2]
def enrs : Ty := .bare (.dyn 32 2048 32 2048) 0
def offer : Ty := .cont [.var (.dyn 64 2048 64 2048)]
/-- the encoder bounds the bit list by 64 BYTES, the decoder by 64 BITS (`ValidateBitlist(buf, 64)`) -/
def accept : Ty := .cont [.fix 2, .var (.bits 64 64)]
def acceptV1 : Ty := .cont [.fix 2, .var (.vec 1 64 64)]

/-! ## ping extensions (ztyp; the encoders have no limit checks) -/
def clientInfo : Ty := .zcont [.var (.bytes big 200), .fix 32, .var (.vec 2 big 400)]
def basicRadius : Ty := .zcont [.fix 32]
def historyRadius : Ty := .zcont [.fix 32, .uint 2]
def errorPayload : Ty := .zcont [.uint 2, .var (.bytes big 300)]
def capabilities : Ty := .zbare (.vec 2 big 400)

/-! ## types/history -/
def proofHashesAccumulator : Ty := .cont [.fvec 15 32]
def proofHistoricalRoots : Ty := .cont [.fvec 14 32, .fix 32, .fvec 11 32, .uint 8]
def proofSummariesCapella : Ty := .cont [.fvec 13 32, .fix 32, .fvec 11 32, .uint 8]
def proofSummariesDeneb : Ty := .cont [.fvec 13 32, .fix 32, .fvec 12 32, .uint 8]
def blockHeaderWithProof : Ty := .cont [.var (.bytes 8192 8192), .var (.bytes 1024 1024)]
def findContentEphemeralKey : Ty := .cont [.fix 32, .uint 1]
/-- `guard = true`: as implemented, `UnmarshalSSZ` starts with `if size < 4 { return ErrSize }` -/
def ephemeralHeaderPayload (guard : Bool) : Ty := .bare (.dyn 256 2048 256 2048) (if guard then 4 else 0)
def offerEphemeralKey : Ty := .cont [.fix 32]
def offerEphemeralHeader : Ty := .cont [.var (.bytes 2048 2048)]

/-! ## history -/
def headerRecord : Ty := .cont [.fix 32, .fix 32]
def epochAccumulator : Ty := .cont [.fvec 8192 64]
def blockBodyLegacy : Ty := .cont [.var (.dyn 16384 16777216 16384 16777216), .var (.bytes 131072 131072)]
def blockBodyShanghai : Ty :=
  .cont [.var (.dyn 16384 16777216 16384 16777216), .var (.bytes 131072 131072), .var (.dyn 16 192 16 192)]
def sszProof : Ty := .cont [.fix 32, .var (.vec 32 65536 65536)]
def masterAccumulator : Ty := .cont [.var (.vec 32 1897 1897)]
def portalReceipts (guard : Bool) : Ty := .bare (.dyn 16384 134217728 16384 134217728) (if guard then 4 else 0)

/-! ## types/beacon content keys -/
def lcUpdateKey : Ty := .cont [.uint 8, .uint 8]
def lcBootstrapKey : Ty := .cont [.fix 32]
def lcFinalityKey : Ty := .cont [.uint 8]
def lcOptimisticKey : Ty := .cont [.uint 8]
def summariesKey : Ty := .zcont [.uint 8]

/-! ## state (ztyp; the encoders have no limit checks) -/
def nibbles : Ty := .zbare (.nibbles 64)
def accountTrieNodeKey : Ty := .zcont [.var (.nibbles 64), .fix 32]
def contractStorageTrieNodeKey : Ty := .zcont [.fix 32, .var (.nibbles 64), .fix 32]
def contractBytecodeKey : Ty := .zcont [.fix 32, .fix 32]
def encodedTrieNode : Ty := .zbare (.bytes big 1024)
def trieNode : Ty := .zcont [.var (.bytes big 1024)]
def trieProof : Ty := .zbare (.dyn big big 65 1024)
def contractByteCode : Ty := .zbare (.bytes big 32768)
def contractBytecodeContainer : Ty := .zcont [.var (.bytes big 32768)]
def accountTrieNodeWithProof : Ty := .zcont [.var (.dyn big big 65 1024), .fix 32]
def contractStorageTrieNodeWithProof : Ty :=
  .zcont [.var (.dyn big big 65 1024), .var (.dyn big big 65 1024), .fix 32]
def contractBytecodeWithProof : Ty := .zcont [.var (.bytes big 32768), .var (.dyn big big 65 1024), .fix 32]

/-- name used on the harness lines → schema. `guard`: the `size < 4` guard of the two bare lists. -/
def byName (guard : Bool) : String → Option Ty
  | "Ping" => some ping
  | "Pong" => some pong
  | "FindNodes" => some findNodes
  | "Nodes" => some nodes
  | "FindContent" => some findContent
  | "Content" => some content
  | "ConnectionId" => some connectionId
  | "Enrs" => some enrs
  | "Offer" => some offer
  | "Accept" => some accept
  | "AcceptV1" => some acceptV1
  | "pe.ClientInfo" => some clientInfo
  | "pe.BasicRadius" => some basicRadius
  | "pe.HistoryRadius" => some historyRadius
  | "pe.Error" => some errorPayload
  | "pe.Capabilities" => some capabilities
  | "th.ProofHashesAccumulator" => some proofHashesAccumulator
  | "th.ProofHistoricalRoots" => some proofHistoricalRoots
  | "th.ProofSummariesCapella" => some proofSummariesCapella
  | "th.ProofSummariesDeneb" => some proofSummariesDeneb
  | "th.BlockHeaderWithProof" => some blockHeaderWithProof
  | "th.FindContentEphemeralKey" => some findContentEphemeralKey
  | "th.EphemeralHeaderPayload" => some (ephemeralHeaderPayload guard)
  | "th.OfferEphemeralKey" => some offerEphemeralKey
  | "th.OfferEphemeralHeader" => some offerEphemeralHeader
  | "h.HeaderRecord" => some headerRecord
  | "h.EpochAccumulator" => some epochAccumulator
  | "h.BlockBodyLegacy" => some blockBodyLegacy
  | "h.BlockBodyShanghai" => some blockBodyShanghai
  | "h.BlockHeaderWithProof" => some blockHeaderWithProof
  | "h.SSZProof" => some sszProof
  | "h.MasterAccumulator" => some masterAccumulator
  | "h.PortalReceipts" => some (portalReceipts guard)
  | "b.LcUpdateKey" => some lcUpdateKey
  | "b.LcBootstrapKey" => some lcBootstrapKey
  | "b.LcFinalityKey" => some lcFinalityKey
  | "b.LcOptimisticKey" => some lcOptimisticKey
  | "b.SummariesKey" => some summariesKey
  | "s.Nibbles" => some nibbles
  | "s.AccountTrieNodeKey" => some accountTrieNodeKey
  | "s.ContractStorageTrieNodeKey" => some contractStorageTrieNodeKey
  | "s.ContractBytecodeKey" => some contractBytecodeKey
  | "s.EncodedTrieNode" => some encodedTrieNode
  | "s.TrieNode" => some trieNode
  | "s.TrieProof" => some trieProof
  | "s.ContractByteCode" => some contractByteCode
  | "s.ContractBytecodeContainer" => some contractBytecodeContainer
  | "s.AccountTrieNodeWithProof" => some accountTrieNodeWithProof
  | "s.ContractStorageTrieNodeWithProof" => some contractStorageTrieNodeWithProof
  | "s.ContractBytecodeWithProof" => some contractBytecodeWithProof
  | _ => none

/-- every schema of the table (for the finite consistency check) -/
def all (guard : Bool) : List Ty :=
  [ping, pong, findNodes, nodes, findContent, content, connectionId, enrs, offer, accept, acceptV1,
   clientInfo, basicRadius, historyRadius, errorPayload, capabilities,
   proofHashesAccumulator, proofHistoricalRoots, proofSummariesCapella, proofSummariesDeneb,
   blockHeaderWithProof, findContentEphemeralKey, ephemeralHeaderPayload guard, offerEphemeralKey,
   offerEphemeralHeader, headerRecord, epochAccumulator, blockBodyLegacy, blockBodyShanghai, sszProof,
   masterAccumulator, portalReceipts guard, lcUpdateKey, lcBootstrapKey, lcFinalityKey, lcOptimisticKey,
   summariesKey, nibbles, accountTrieNodeKey, contractStorageTrieNodeKey, contractBytecodeKey, encodedTrieNode,
   trieNode, trieProof, contractByteCode, contractBytecodeContainer, accountTrieNodeWithProof,
   contractStorageTrieNodeWithProof, contractBytecodeWithProof]

end Wire.Schemas
