import Shisui.Ssz.Dyn
/-! # C14: a sequential evaluation of `Sz.cut`, proved equal and handed to the compiler

`Sz.cut` slices the source at every offset with `src.drop o` (quadratic for long lists of short items). The
compiled driver uses `cutSeq`, which walks the source once; `decodeDyn_eq_fast` is a `csimp` lemma, i.e. a proved
equation the compiler may rewrite with. Theorems are stated about `Sz.cut` / `Sz.decodeDyn` as before. -/
namespace Sz

/-- `rest` is `src.drop o` for the first offset `o` of the list -/
def cutSeq (size : Nat) : List Nat → List Nat → Option (List (List Nat))
  | [], _ => some []
  | [o], rest => if o ≤ size then some [rest.take (size - o)] else none
  | o :: o' :: more, rest =>
    if o ≤ o' ∧ o' ≤ size then
      (cutSeq size (o' :: more) (rest.drop (o' - o))).map (rest.take (o' - o) :: ·)
    else none

theorem cutSeq_eq (src : List Nat) (size : Nat) : ∀ (offs : List Nat),
    cutSeq size offs (src.drop (offs.headD 0)) = cut src size offs := by
  intro offs
  induction offs with
  | nil => rfl
  | cons o rest ih =>
    cases rest with
    | nil => simp [cutSeq, cut]
    | cons o2 more =>
      simp only [cutSeq, cut, List.headD_cons]
      split
      · rename_i h
        have hd : (src.drop o).drop (o2 - o) = src.drop o2 := by
          rw [List.drop_drop]; congr 1; omega
        rw [hd]
        have := ih
        simp only [List.headD_cons] at this
        rw [this]
      · rfl

def decodeDynFast (maxN : Nat) (buf : List Nat) : Option (List (List Nat)) :=
  if buf = [] then some [] else
  match rd32 buf with
  | none => none
  | some (o0, _) =>
    if o0 % 4 ≠ 0 then none
    else if o0 / 4 > maxN then none
    else if o0 / 4 = 0 then (if buf.length = 4 then some [] else none)
    else match readN (o0 / 4) buf with
      | none => none
      | some offs => cutSeq buf.length offs (buf.drop (offs.headD 0))

@[csimp] theorem decodeDyn_eq_fast : @decodeDyn = @decodeDynFast := by
  funext maxN buf
  unfold decodeDyn decodeDynFast
  simp only [cutSeq_eq]
  rfl

end Sz
