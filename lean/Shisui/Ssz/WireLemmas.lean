import Shisui.Ssz.Wire
/-! # C14: field-level lemmas (little-endian integers, chunking, the offset-table list) -/
namespace Wire
open Sz

/-! ## little-endian integers -/

theorem leBytes_length (n v : Nat) : (leBytes n v).length = n := by
  induction n generalizing v with
  | zero => rfl
  | succ n ih => simp [leBytes, ih]

theorem leNat_leBytes (n v : Nat) (h : v < 256 ^ n) : leNat (leBytes n v) = v := by
  induction n generalizing v with
  | zero => simp at h; subst h; rfl
  | succ n ih =>
    have h' : v / 256 < 256 ^ n := by
      apply Nat.div_lt_of_lt_mul
      rw [Nat.pow_succ] at h
      omega
    simp only [leBytes, leNat, ih _ h']
    omega

theorem leBytes_leNat (b : List Nat) (hb : Bytes b) : leBytes b.length (leNat b) = b := by
  induction b with
  | nil => rfl
  | cons x r ih =>
    have hx : x < 256 := hb x (List.mem_cons_self ..)
    have hr : Bytes r := fun y hy => hb y (List.mem_cons_of_mem _ hy)
    simp only [List.length_cons, leBytes, leNat]
    have h1 : (x + 256 * leNat r) % 256 = x := by omega
    have h2 : (x + 256 * leNat r) / 256 = leNat r := by omega
    rw [h1, h2, ih hr]

theorem leNat_lt (b : List Nat) (hb : Bytes b) : leNat b < 256 ^ b.length := by
  induction b with
  | nil => simp [leNat]
  | cons x r ih =>
    have hx : x < 256 := hb x (List.mem_cons_self ..)
    have hr := ih (fun y hy => hb y (List.mem_cons_of_mem _ hy))
    simp only [List.length_cons, leNat, Nat.pow_succ]
    generalize 256 ^ r.length = p at hr ⊢
    omega

theorem leBytes_bytes (n v : Nat) : Bytes (leBytes n v) := by
  induction n generalizing v with
  | zero => intro x hx; simp [leBytes] at hx
  | succ n ih =>
    intro x hx
    simp only [leBytes, List.mem_cons] at hx
    rcases hx with rfl | hx
    · omega
    · exact ih _ x hx

/-! ## chunks -/

theorem allLen_iff (xs : List (List Nat)) (n : Nat) : allLen xs n = true ↔ ∀ x ∈ xs, x.length = n := by
  simp [allLen, List.all_eq_true]

theorem allLe_iff (xs : List (List Nat)) (n : Nat) : allLe xs n = true ↔ ∀ x ∈ xs, x.length ≤ n := by
  simp [allLe, List.all_eq_true]

theorem chunks_length (k n : Nat) (b : List Nat) : (chunks k n b).length = n := by
  induction n generalizing b with
  | zero => rfl
  | succ n ih => simp [chunks, ih]

theorem chunks_flatten (k : Nat) (xs : List (List Nat)) (h : ∀ x ∈ xs, x.length = k) :
    chunks k xs.length xs.flatten = xs := by
  induction xs with
  | nil => rfl
  | cons x r ih =>
    have hx : x.length = k := h x (List.mem_cons_self ..)
    have hr := ih (fun y hy => h y (List.mem_cons_of_mem _ hy))
    simp only [List.length_cons, List.flatten_cons, chunks]
    rw [← hx, List.take_left, List.drop_left, hx, hr]

theorem flatten_length_const (xs : List (List Nat)) (k : Nat) (h : ∀ x ∈ xs, x.length = k) :
    xs.flatten.length = xs.length * k := by
  induction xs with
  | nil => simp
  | cons x r ih =>
    have hx : x.length = k := h x (List.mem_cons_self ..)
    have hr := ih (fun y hy => h y (List.mem_cons_of_mem _ hy))
    simp only [List.flatten_cons, List.length_append, List.length_cons, hx, hr, Nat.succ_mul]
    omega

theorem chunks_item_length (k n : Nat) (b : List Nat) (h : b.length = n * k) :
    ∀ x ∈ chunks k n b, x.length = k := by
  induction n generalizing b with
  | zero => intro x hx; simp [chunks] at hx
  | succ n ih =>
    intro x hx
    simp only [chunks, List.mem_cons] at hx
    rw [Nat.succ_mul] at h
    rcases hx with rfl | hx
    · simp only [List.length_take]; omega
    · exact ih (b.drop k) (by simp only [List.length_drop]; omega) x hx

theorem flatten_chunks (k n : Nat) (b : List Nat) (h : b.length = n * k) : (chunks k n b).flatten = b := by
  induction n generalizing b with
  | zero =>
    have : b = [] := List.eq_nil_of_length_eq_zero (by simpa using h)
    subst this; rfl
  | succ n ih =>
    rw [Nat.succ_mul] at h
    simp only [chunks, List.flatten_cons]
    rw [ih (b.drop k) (by simp only [List.length_drop]; omega), List.take_append_drop]

/-! ## the offset-table list -/

theorem encodeDyn_length (items : List (List Nat)) :
    (encodeDyn items).length = 4 * items.length + total items := by
  rw [encodeDyn, List.length_append, table_length, offsetsOf_length]; rfl

theorem readN_length (n : Nat) : ∀ (buf offs : List Nat), readN n buf = some offs → offs.length = n := by
  induction n with
  | zero => intro buf offs h; simp [readN] at h; subst h; rfl
  | succ n ih =>
    intro buf offs h
    simp only [readN] at h
    cases hr : rd32 buf with
    | none => simp [hr] at h
    | some p =>
      obtain ⟨o, rest⟩ := p
      simp only [hr] at h
      cases hn : readN n rest with
      | none => simp [hn] at h
      | some os =>
        simp only [hn, Option.map_some, Option.some.injEq] at h
        subst h
        simp [ih rest os hn]

/-- the offsets read, re-written, are the first `4 n` bytes -/
theorem readN_canon (n : Nat) : ∀ (buf offs : List Nat), Bytes buf → readN n buf = some offs →
    offs.flatMap u32le ++ buf.drop (4 * n) = buf := by
  induction n with
  | zero => intro buf offs _ h; simp [readN] at h; subst h; simp
  | succ n ih =>
    intro buf offs hb h
    simp only [readN] at h
    cases hr : rd32 buf with
    | none => simp [hr] at h
    | some p =>
      obtain ⟨o, rest⟩ := p
      simp only [hr] at h
      cases hn : readN n rest with
      | none => simp [hn] at h
      | some os =>
        simp only [hn, Option.map_some, Option.some.injEq] at h
        subst h
        obtain ⟨hcan, hbr⟩ := rd32_canon buf o rest hb hr
        have hrec := ih rest os hbr hn
        simp only [List.flatMap_cons, List.append_assoc]
        have hd : buf.drop (4 * (n + 1)) = rest.drop (4 * n) := by
          rw [← hcan]
          have hl : (u32le o).length = 4 := by simp [u32le]
          have e : 4 * (n + 1) = (u32le o).length + 4 * n := by omega
          rw [e, ← List.drop_drop, List.drop_left]
        rw [hd, hrec, hcan]

theorem readN_head (n : Nat) (buf offs : List Nat) (o : Nat) (rest : List Nat)
    (hr : rd32 buf = some (o, rest)) (h : readN (n + 1) buf = some offs) : ∃ os, offs = o :: os := by
  simp only [readN, hr] at h
  cases hn : readN n rest with
  | none => simp [hn] at h
  | some os =>
    simp only [hn, Option.map_some, Option.some.injEq] at h
    exact ⟨os, h.symm⟩

theorem cut_length (src : List Nat) (size : Nat) : ∀ (offs : List Nat) (vs : List (List Nat)),
    cut src size offs = some vs → vs.length = offs.length := by
  intro offs
  induction offs with
  | nil => intro vs h; simp [cut] at h; subst h; rfl
  | cons o rest ih =>
    intro vs h
    cases rest with
    | nil =>
      simp only [cut] at h
      split at h
      · simp only [Option.some.injEq] at h; subst h; rfl
      · simp at h
    | cons o2 rest2 =>
      simp only [cut] at h
      split at h
      · cases hrec : cut src size (o2 :: rest2) with
        | none => simp [hrec] at h
        | some vs' =>
          simp only [hrec, Option.map_some, Option.some.injEq] at h
          subst h
          simp [ih vs' hrec]
      · simp at h

/-- what `decodeDyn` accepts has at most `maxN` items -/
theorem decodeDyn_le (maxN : Nat) (buf : List Nat) (xs : List (List Nat))
    (h : decodeDyn maxN buf = some xs) : xs.length ≤ maxN := by
  unfold decodeDyn at h
  split at h
  · simp only [Option.some.injEq] at h; subst h; simp
  · split at h
    · simp at h
    · rename_i o0 tl hr
      split at h
      · simp at h
      · split at h
        · simp at h
        · rename_i hmax
          split at h
          · split at h
            · simp only [Option.some.injEq] at h; subst h; simp
            · simp at h
          · split at h
            · simp at h
            · rename_i offs hro
              have h1 := cut_length _ _ _ _ h
              have h2 := readN_length _ _ _ hro
              omega

/-- a non-empty result of `decodeDyn` re-encodes to the input -/
theorem decodeDyn_canonical (maxN : Nat) (buf : List Nat) (xs : List (List Nat)) (hb : Bytes buf)
    (h : decodeDyn maxN buf = some xs) (hne : xs ≠ []) : encodeDyn xs = buf := by
  unfold decodeDyn at h
  split at h
  · simp only [Option.some.injEq] at h; exact absurd h.symm hne
  · split at h
    · simp at h
    · rename_i o0 tl hr
      split at h
      · simp at h
      · rename_i hmod
        split at h
        · simp at h
        · split at h
          · split at h
            · simp only [Option.some.injEq] at h; exact absurd h.symm hne
            · simp at h
          · rename_i hz
            split at h
            · simp at h
            · rename_i offs hro
              have hlen := readN_length _ _ _ hro
              have hcan := readN_canon _ _ _ hb hro
              have hpos : o0 / 4 = (o0 / 4 - 1) + 1 := by omega
              obtain ⟨os, hos⟩ : ∃ os, offs = o0 :: os := by
                rw [hpos] at hro
                exact readN_head _ _ _ _ _ hr hro
              obtain ⟨p1, p2, p3⟩ := cut_partition buf buf.length rfl offs xs h o0 os hos
              have hxl : xs.length = o0 / 4 := by
                have := cut_length _ _ _ _ h
                omega
              have h4 : 4 * xs.length = o0 := by
                have : o0 % 4 = 0 := by simpa using hmod
                omega
              unfold encodeDyn
              rw [h4, ← p1, p2]
              have ht : (buf.drop o0).take (buf.length - o0) = buf.drop o0 := by
                apply List.take_of_length_le; simp
              rw [ht]
              have : 4 * (o0 / 4) = o0 := by omega
              rw [this] at hcan
              exact hcan

theorem rd32_encodeDyn_cons (x : List Nat) (xs : List (List Nat))
    (hsz : (encodeDyn (x :: xs)).length < 2 ^ 32) :
    ∃ tl, rd32 (encodeDyn (x :: xs)) = some (4 * (x :: xs).length, tl) := by
  refine ⟨(offsetsOf (4 * (x :: xs).length + x.length) xs).flatMap u32le ++ (x :: xs).flatten, ?_⟩
  rw [encodeDyn_length] at hsz
  simp only [encodeDyn, offsetsOf, List.flatMap_cons, List.append_assoc]
  exact rd32_u32le _ _ (by omega)

/-- a list longer than the decoder's bound is refused -/
theorem decodeDyn_encode_over (maxN : Nat) (items : List (List Nat)) (h : maxN < items.length)
    (hsz : (encodeDyn items).length < 2 ^ 32) : decodeDyn maxN (encodeDyn items) = none := by
  cases items with
  | nil => simp at h
  | cons x xs =>
    obtain ⟨tl, hr⟩ := rd32_encodeDyn_cons x xs hsz
    have hne : encodeDyn (x :: xs) ≠ [] := by simp [encodeDyn, offsetsOf, u32le]
    unfold decodeDyn
    simp only [hne, if_false, hr]
    have h4 : 4 * (x :: xs).length % 4 = 0 := by omega
    have hdiv : 4 * (x :: xs).length / 4 = (x :: xs).length := by omega
    simp only [h4, hdiv, ne_eq, not_true_eq_false, if_false]
    have : (x :: xs).length > maxN := h
    simp only [this, if_true]

/-- exact behaviour of the list decoder (either switch) on encodings -/
theorem decodeDynQ_encode (zt : Bool) (maxN : Nat) (items : List (List Nat))
    (hsz : (encodeDyn items).length < 2 ^ 32) :
    decodeDynQ zt maxN (encodeDyn items) = if items.length ≤ maxN then some items else none := by
  unfold decodeDynQ
  by_cases hle : items.length ≤ maxN
  · have hsz' : 4 * items.length + total items < 2 ^ 32 := by rw [← encodeDyn_length]; exact hsz
    rw [Sz.decode_encode maxN items hle hsz']
    simp only [hle, if_true]
    cases items with
    | nil => simp [encodeDyn, offsetsOf]
    | cons x xs => rfl
  · rw [decodeDyn_encode_over maxN items (by omega) hsz]
    simp [hle]

theorem decodeDynQ_some (zt : Bool) (maxN : Nat) (buf : List Nat) (xs : List (List Nat))
    (h : decodeDynQ zt maxN buf = some xs) : decodeDyn maxN buf = some xs := by
  unfold decodeDynQ at h
  split at h
  · rename_i heq
    split at h
    · simp only [Option.some.injEq] at h; subst h; exact heq
    · simp at h
  · exact h

theorem decodeDynQ_le (zt : Bool) (maxN : Nat) (buf : List Nat) (xs : List (List Nat))
    (h : decodeDynQ zt maxN buf = some xs) : xs.length ≤ maxN :=
  decodeDyn_le maxN buf xs (decodeDynQ_some zt maxN buf xs h)

/-- ideal list decoder: whatever it accepts re-encodes to the input -/
theorem decodeDynQ_canonical (maxN : Nat) (buf : List Nat) (xs : List (List Nat)) (hb : Bytes buf)
    (h : decodeDynQ false maxN buf = some xs) : encodeDyn xs = buf := by
  have hd := decodeDynQ_some false maxN buf xs h
  cases xs with
  | nil =>
    unfold decodeDynQ at h
    rw [hd] at h
    simp only [Bool.false_or] at h
    split at h
    · rename_i he
      have : buf = [] := by simpa using he
      subst this; rfl
    · simp at h
  | cons x r => exact decodeDyn_canonical maxN buf (x :: r) hb hd (by simp)

/-- the deviation, exactly: with the switch on, the only extra acceptance is a non-empty buffer decoded as `[]` -/
theorem decodeDynQ_quirk (maxN : Nat) (buf : List Nat) (xs : List (List Nat))
    (h : decodeDynQ true maxN buf = some xs) : decodeDynQ false maxN buf = some xs ∨ (xs = [] ∧ buf ≠ []) := by
  have hd := decodeDynQ_some true maxN buf xs h
  cases xs with
  | nil =>
    cases hbuf : buf with
    | nil => left; subst hbuf; rfl
    | cons a r => right; simp
  | cons x r =>
    left
    unfold decodeDynQ
    rw [hd]

/-! ## packed nibbles -/

theorem allNib_iff (ns : List Nat) : allNib ns = true ↔ ∀ n ∈ ns, n < 16 := by
  simp [allNib, List.all_eq_true]

theorem unpack_packPairs : ∀ (ns : List Nat), (∀ n ∈ ns, n < 16) → ns.length % 2 = 0 →
    unpackNibbles (packPairs ns) = ns
  | [], _, _ => rfl
  | [_], _, h => by simp at h
  | a :: b :: r, hn, hl => by
    have ha : a < 16 := hn a (by simp)
    have hb : b < 16 := hn b (by simp)
    have ih := unpack_packPairs r (fun n h => hn n (by simp [h])) (by simp at hl; omega)
    simp only [unpackNibbles] at ih
    simp only [packPairs, unpackNibbles, List.flatMap_cons, ih]
    have h1 : (a * 16 + b) / 16 = a := by omega
    have h2 : (a * 16 + b) % 16 = b := by omega
    rw [h1, h2]; rfl

theorem unpack_length (bs : List Nat) : (unpackNibbles bs).length = 2 * bs.length := by
  induction bs with
  | nil => rfl
  | cons b r ih =>
    simp only [unpackNibbles, List.flatMap_cons, List.length_append, List.length_cons, List.length_nil] at ih ⊢
    omega

theorem unpack_nib (bs : List Nat) (hb : Bytes bs) : ∀ n ∈ unpackNibbles bs, n < 16 := by
  induction bs with
  | nil => intro n h; simp [unpackNibbles] at h
  | cons b r ih =>
    intro n h
    have hb' : b < 256 := hb b (List.mem_cons_self ..)
    simp only [unpackNibbles, List.flatMap_cons, List.mem_append, List.mem_cons, List.not_mem_nil, or_false] at h
    rcases h with (rfl | rfl) | h
    · omega
    · omega
    · exact ih (fun y hy => hb y (List.mem_cons_of_mem _ hy)) n (by simpa [unpackNibbles] using h)

theorem packPairs_unpack (bs : List Nat) : packPairs (unpackNibbles bs) = bs := by
  induction bs with
  | nil => rfl
  | cons b r ih =>
    simp only [unpackNibbles, List.flatMap_cons] at ih ⊢
    simp only [List.cons_append, List.nil_append, packPairs, ih]
    have : b / 16 * 16 + b % 16 = b := by omega
    rw [this]

/-- exact behaviour of the nibble decoder on encodings of well-typed paths -/
theorem decNibbles_enc (m : Nat) (ns : List Nat) (hn : ∀ n ∈ ns, n < 16) :
    decNibbles m (encNibbles ns) = if ns.length ≤ m then some ns else none := by
  unfold encNibbles
  split
  · rename_i hev
    simp only [decNibbles, Nat.zero_div, Nat.zero_mod, ne_eq, not_true_eq_false, if_true, if_false,
      unpack_packPairs ns hn hev]
  · rename_i hodd
    cases ns with
    | nil => simp at hodd
    | cons n0 r =>
      have h0 : n0 < 16 := hn n0 (List.mem_cons_self ..)
      have hr : r.length % 2 = 0 := by simp at hodd; omega
      have h1 : (16 + n0) / 16 = 1 := by omega
      have h2 : (16 + n0) % 16 = n0 := by omega
      have hne : ¬ ((16 + n0) / 16 = 0) := by omega
      simp only [decNibbles, h1, h2,
        unpack_packPairs r (fun n h => hn n (List.mem_cons_of_mem _ h)) hr]
      simp

/-- what the nibble decoder accepts: at most `m` nibbles, each below 16, and the canonical packing of the input -/
theorem decNibbles_sound (m : Nat) (raw ns : List Nat) (hb : Bytes raw) (h : decNibbles m raw = some ns) :
    ns.length ≤ m ∧ (∀ n ∈ ns, n < 16) ∧ encNibbles ns = raw := by
  cases raw with
  | nil => simp [decNibbles] at h
  | cons b rest =>
    have hb0 : b < 256 := hb b (List.mem_cons_self ..)
    have hbr : Bytes rest := fun y hy => hb y (List.mem_cons_of_mem _ hy)
    simp only [decNibbles] at h
    split at h
    · rename_i hf0
      split at h
      · simp at h
      · rename_i hz
        split at h
        · rename_i hle
          simp only [Option.some.injEq] at h; subst h
          refine ⟨hle, unpack_nib rest hbr, ?_⟩
          have hev : (unpackNibbles rest).length % 2 = 0 := by rw [unpack_length]; omega
          have hb00 : b = 0 := by
            have : b % 16 = 0 := by simpa using hz
            omega
          simp only [encNibbles, hev, if_true, packPairs_unpack, hb00]
        · simp at h
    · split at h
      · rename_i hf1
        split at h
        · rename_i hle
          simp only [Option.some.injEq] at h; subst h
          refine ⟨hle, ?_, ?_⟩
          · intro n hn
            rcases List.mem_cons.1 hn with rfl | hn
            · omega
            · exact unpack_nib rest hbr n hn
          · have hodd : ¬ ((b % 16 :: unpackNibbles rest).length % 2 = 0) := by
              simp only [List.length_cons, unpack_length]; omega
            have : 16 + b % 16 = b := by omega
            simp only [encNibbles, hodd, if_false, packPairs_unpack, this]
        · simp at h
      · simp at h

end Wire
