import Shisui.Ssz.Dyn
namespace Sz

/-! Generic SSZ container as the hand-edited fastssz code lays it out: a fixed part made of inline
    fixed-size fields and 4-byte offset slots, followed by the variable-size fields back to back. -/

inductive SegS where                 -- schema of one slot of the fixed part
  | fixed (n : Nat)                  -- n bytes inline
  | off                              -- offset of the next variable field
deriving DecidableEq, Repr

inductive Seg where                  -- value of one slot
  | fixed (b : List Nat)
  | off
deriving DecidableEq, Repr

def Seg.schema : Seg → SegS
  | .fixed b => .fixed b.length
  | .off => .off

def fixedLen : List SegS → Nat
  | [] => 0
  | .fixed n :: r => n + fixedLen r
  | .off :: r => 4 + fixedLen r

def nOff : List SegS → Nat
  | [] => 0
  | .fixed _ :: r => nOff r
  | .off :: r => 1 + nOff r

structure CVal where
  segs : List Seg
  vars : List (List Nat)

/-- fixed part with the offsets filled in -/
def encFixed : List Seg → List Nat → List Nat
  | [], _ => []
  | .fixed b :: r, os => b ++ encFixed r os
  | .off :: r, o :: os => u32le o ++ encFixed r os
  | .off :: r, [] => encFixed r []

def encodeC (c : CVal) : List Nat :=
  encFixed c.segs (offsetsOf (fixedLen (c.segs.map Seg.schema)) c.vars) ++ c.vars.flatten

/-- parse the fixed part along the schema: the inline fields and the offsets read -/
def decFixed : List SegS → List Nat → Option (List Seg × List Nat)
  | [], _ => some ([], [])
  | .fixed n :: r, buf =>
    if buf.length < n then none
    else (decFixed r (buf.drop n)).map (fun p => (Seg.fixed (buf.take n) :: p.1, p.2))
  | .off :: r, buf =>
    match rd32 buf with
    | none => none
    | some (o, rest) => (decFixed r rest).map (fun p => (Seg.off :: p.1, o :: p.2))

/-- `UnmarshalSSZ` of a container: size guard, fixed part, first offset must equal the fixed size
    (the `o != N` check), then monotone in-range offsets cut the tail -/
def decodeC (schema : List SegS) (buf : List Nat) : Option CVal :=
  if buf.length < fixedLen schema then none
  else match decFixed schema buf with
    | none => none
    | some (segs, offs) =>
      match offs with
      | [] => if buf.length = fixedLen schema then some { segs := segs, vars := [] } else none
      | o :: _ =>
        if o ≠ fixedLen schema then none
        else (cut buf buf.length offs).map (fun vs => { segs := segs, vars := vs })

theorem encFixed_length (segs : List Seg) (os : List Nat) (h : nOff (segs.map Seg.schema) ≤ os.length) :
    (encFixed segs os).length = fixedLen (segs.map Seg.schema) := by
  induction segs generalizing os with
  | nil => simp [encFixed, fixedLen]
  | cons s r ih =>
    cases s with
    | fixed b =>
      simp only [encFixed, List.map_cons, Seg.schema, fixedLen, List.length_append]
      rw [ih os (by simpa [nOff, Seg.schema] using h)]
    | off =>
      cases os with
      | nil => simp [nOff, Seg.schema] at h
      | cons o os =>
        simp only [encFixed, List.map_cons, Seg.schema, fixedLen, List.length_append]
        rw [ih os (by simp [nOff, Seg.schema] at h; omega)]
        simp [u32le]

/-- reading back the fixed part of an encoding returns the slots and exactly the offsets written -/
theorem decFixed_enc (segs : List Seg) (os : List Nat) (tail : List Nat)
    (hn : nOff (segs.map Seg.schema) = os.length) (hos : ∀ o ∈ os, o < 2 ^ 32) :
    decFixed (segs.map Seg.schema) (encFixed segs os ++ tail) = some (segs, os) := by
  induction segs generalizing os with
  | nil =>
    have : os = [] := List.eq_nil_of_length_eq_zero (by simpa [nOff] using hn.symm)
    subst this; simp [decFixed]
  | cons s r ih =>
    cases s with
    | fixed b =>
      simp only [List.map_cons, Seg.schema, decFixed, encFixed, List.append_assoc, List.length_append]
      have : ¬ (b.length + ((encFixed r os).length + tail.length) < b.length) := by omega
      simp only [this, if_false, List.drop_left, List.take_left]
      rw [ih os (by simpa [nOff, Seg.schema] using hn) hos]
      rfl
    | off =>
      cases os with
      | nil => simp [nOff, Seg.schema] at hn
      | cons o os =>
        simp only [List.map_cons, Seg.schema, decFixed, encFixed, List.append_assoc]
        rw [rd32_u32le o _ (hos o (List.mem_cons_self ..))]
        simp only
        rw [ih os (by simp [nOff, Seg.schema] at hn; omega) (fun o' ho' => hos o' (List.mem_cons_of_mem _ ho'))]
        rfl

/-- C14: every container of this shape round-trips -/
theorem decodeC_encodeC (c : CVal)
    (hn : nOff (c.segs.map Seg.schema) = c.vars.length)
    (hsz : fixedLen (c.segs.map Seg.schema) + total c.vars < 2 ^ 32) :
    decodeC (c.segs.map Seg.schema) (encodeC c) = some c := by
  have hol : (offsetsOf (fixedLen (c.segs.map Seg.schema)) c.vars).length = c.vars.length := offsetsOf_length _ _
  have hos : ∀ o ∈ offsetsOf (fixedLen (c.segs.map Seg.schema)) c.vars, o < 2 ^ 32 := by
    intro o ho; have := offsetsOf_lt _ _ o ho; omega
  have hfl := encFixed_length c.segs (offsetsOf (fixedLen (c.segs.map Seg.schema)) c.vars) (by rw [hol, hn]; exact Nat.le_refl _)
  unfold decodeC encodeC
  have hlen : ¬ ((encFixed c.segs (offsetsOf (fixedLen (c.segs.map Seg.schema)) c.vars) ++ c.vars.flatten).length
      < fixedLen (c.segs.map Seg.schema)) := by
    simp only [List.length_append, hfl]; omega
  simp only [hlen, if_false]
  rw [decFixed_enc c.segs _ c.vars.flatten (by rw [hol, hn]) hos]
  simp only
  cases hv : c.vars with
  | nil =>
    simp only [offsetsOf, List.flatten_nil, List.append_nil]
    rw [hv] at hfl; simp only [offsetsOf] at hfl
    simp only [hfl, if_true]
    cases c; simp_all
  | cons x xs =>
    simp only [offsetsOf, ne_eq, not_true_eq_false, if_false]
    have hc := cut_items (encFixed c.segs (offsetsOf (fixedLen (c.segs.map Seg.schema)) c.vars)) (x :: xs) []
      (by simp)
      (encFixed c.segs (offsetsOf (fixedLen (c.segs.map Seg.schema)) c.vars) ++ (x :: xs).flatten) _ []
      (by simp) rfl
    simp only [hfl, List.length_nil, Nat.add_zero] at hc
    rw [hv] at hc
    simp only [offsetsOf] at hc
    rw [hc]
    cases c; simp_all

#print axioms decodeC_encodeC
end Sz
