import Shisui.Bitlist
import Shisui.Ssz.Wire
/-! # C14/C09: the verdict bit list of ACCEPT (v0) against fastssz `ValidateBitlist`

`Bl.encode bits` is go-bitfield's image of `bits` (bits, sentinel, zero padding); `Wire.validBits m` is
`ValidateBitlist(buf, m)`. Theorem: the image of a bit list is accepted exactly when it has at most `m` bits. -/
namespace Wire
open Bl

theorem packBits_append_false (l : List Bool) (n : Nat) : packBits (l ++ List.replicate n false) = packBits l := by
  induction l with
  | nil =>
    induction n with
    | zero => rfl
    | succ n ih => simp only [List.nil_append] at ih; simp [List.replicate_succ, packBits, ih]
  | cons b r ih => simp [packBits, ih]

theorem packBits_sentinel (l : List Bool) : packBits (l ++ [true]) = packBits l + 2 ^ l.length := by
  induction l with
  | nil => simp [packBits]
  | cons b r ih =>
    simp only [List.cons_append, packBits, ih, List.length_cons, Nat.pow_succ]
    omega

theorem bitLen_range (n : Nat) : ∀ (f x : Nat), n < f → 2 ^ n ≤ x → x < 2 ^ (n + 1) → bitLen f x = n + 1 := by
  induction n with
  | zero =>
    intro f x hf h1 h2
    have hx : x = 1 := by simp at h1 h2; omega
    subst hx
    cases f with
    | zero => omega
    | succ f => cases f <;> simp [bitLen]
  | succ n ih =>
    intro f x hf h1 h2
    cases f with
    | zero => omega
    | succ f =>
      have hx : x ≠ 0 := by
        intro h; subst h
        have : 0 < 2 ^ (n + 1) := Nat.two_pow_pos _
        omega
      simp only [bitLen, hx, if_false]
      rw [Nat.pow_succ] at h1 h2
      rw [ih f (x / 2) (by omega) (by omega) (by omega)]
      omega

/-- one byte holding `n < 8` bits and the sentinel -/
theorem encode_short (bits : List Bool) (h : bits.length < 8) : encode bits = [packBits (bits ++ [true])] := by
  unfold encode packBytes
  simp only
  have hl : (bits ++ [true] ++ List.replicate ((8 - (bits ++ [true]).length % 8) % 8) false).length = 8 := by
    simp only [List.length_append, List.length_replicate, List.length_singleton]; omega
  rw [hl]
  simp only [Nat.reduceDiv, packBytesN]
  rw [List.take_of_length_le (by omega), packBits_append_false]

/-- eight bits in front become one byte in front -/
theorem encode_chunk (c rest : List Bool) (hc : c.length = 8) : encode (c ++ rest) = packBits c :: encode rest := by
  unfold encode packBytes
  simp only
  have hp : (8 - (c ++ rest ++ [true]).length % 8) % 8 = (8 - (rest ++ [true]).length % 8) % 8 := by
    simp only [List.length_append, hc, List.length_singleton]; omega
  rw [hp]
  have hlen : (c ++ rest ++ [true] ++ List.replicate ((8 - (rest ++ [true]).length % 8) % 8) false).length / 8 =
      (rest ++ [true] ++ List.replicate ((8 - (rest ++ [true]).length % 8) % 8) false).length / 8 + 1 := by
    simp only [List.length_append, hc, List.length_replicate, List.length_singleton]; omega
  rw [hlen]
  simp only [packBytesN, List.append_assoc]
  have ht : (c ++ (rest ++ ([true] ++ List.replicate ((8 - (rest ++ [true]).length % 8) % 8) false))).take 8 = c := by
    rw [← hc]; exact List.take_left ..
  have hd : (c ++ (rest ++ ([true] ++ List.replicate ((8 - (rest ++ [true]).length % 8) % 8) false))).drop 8 =
      rest ++ ([true] ++ List.replicate ((8 - (rest ++ [true]).length % 8) % 8) false) := by
    rw [← hc]; exact List.drop_left ..
  rw [ht, hd]

theorem encode_ne_nil (bits : List Bool) : encode bits ≠ [] := by
  intro h
  have := Bl.decode_encode bits
  rw [h] at this
  simp [decode, unpackBytes, stripFalse] at this

theorem validBits_single (m n x : Nat) (hn : n < 8) (h1 : 2 ^ n ≤ x) (h2 : x < 2 ^ (n + 1)) :
    validBits m [x] = decide (n ≤ m) := by
  have hx : x ≠ 0 := by
    intro h; subst h
    have : 0 < 2 ^ n := Nat.two_pow_pos _
    omega
  simp [validBits, bitLen_range n 8 x hn h1 h2, hx]

theorem validBits_cons (m b : Nat) (bs : List Nat) (hne : bs ≠ []) :
    validBits (m + 8) (b :: bs) = validBits m bs := by
  cases bs with
  | nil => exact absurd rfl hne
  | cons y ys =>
    unfold validBits
    rw [List.getLast?_cons_cons]
    cases hg : (y :: ys).getLast? with
    | none => rfl
    | some last =>
      simp only [List.length_cons]
      have e1 : (ys.length + 1 + 1 ≤ (m + 8) / 8 + 1) = (ys.length + 1 ≤ m / 8 + 1) := by
        apply propext; constructor <;> intro h <;> omega
      by_cases hl : last = 0
      · simp [hl]
      · have hb : 1 ≤ bitLen 8 last := by
          unfold bitLen; simp [hl]
        have e2 : (8 * (ys.length + 1 + 1 - 1) + bitLen 8 last - 1 ≤ m + 8) =
            (8 * (ys.length + 1 - 1) + bitLen 8 last - 1 ≤ m) := by
          apply propext; constructor <;> intro h <;> omega
        simp only [e1, e2]

theorem validBits_cons_small (m b : Nat) (bs : List Nat) (hne : bs ≠ []) (hm : m < 8) :
    validBits m (b :: bs) = false := by
  cases bs with
  | nil => exact absurd rfl hne
  | cons y ys =>
    unfold validBits
    rw [List.getLast?_cons_cons]
    cases hg : (y :: ys).getLast? with
    | none => rfl
    | some last =>
      have : decide ((b :: y :: ys).length ≤ m / 8 + 1) = false := by
        simp only [List.length_cons, decide_eq_false_iff_not]; omega
      simp only [this, Bool.false_and]

/-- **ACCEPT bit lists**: go-bitfield's image of `bits` passes `ValidateBitlist(·, m)` exactly when `bits` has at
    most `m` entries (m = 64: at most 64 verdicts, one per offered key) -/
theorem validBits_encode : ∀ (k : Nat) (bits : List Bool) (m : Nat), bits.length < 8 * (k + 1) →
    validBits m (encode bits) = decide (bits.length ≤ m) := by
  intro k
  induction k with
  | zero =>
    intro bits m h
    have hl : bits.length < 8 := by omega
    rw [encode_short bits hl, packBits_sentinel]
    have := packBits_lt bits
    exact validBits_single m bits.length _ hl (by omega) (by rw [Nat.pow_succ]; omega)
  | succ k ih =>
    intro bits m h
    by_cases hl : bits.length < 8
    · exact ih bits m (by omega)
    · have hc : (bits.take 8).length = 8 := by simp only [List.length_take]; omega
      have hr : (bits.drop 8).length = bits.length - 8 := by simp
      have henc : encode bits = packBits (bits.take 8) :: encode (bits.drop 8) := by
        have := encode_chunk (bits.take 8) (bits.drop 8) hc
        rwa [List.take_append_drop] at this
      rw [henc]
      by_cases hm : m < 8
      · rw [validBits_cons_small m _ _ (encode_ne_nil _) hm]
        have : ¬ (bits.length ≤ m) := by omega
        simp [this]
      · obtain ⟨m', rfl⟩ : ∃ m', m = m' + 8 := ⟨m - 8, by omega⟩
        rw [validBits_cons m' _ _ (encode_ne_nil _), ih (bits.drop 8) m' (by omega)]
        have e : ((bits.drop 8).length ≤ m') = (bits.length ≤ m' + 8) := by
          apply propext
          rw [hr]
          constructor <;> intro h' <;> omega
        simp only [e]

end Wire
