import Shisui.Ssz.WireProofs
/-! # C14: theorems at the level of a whole type (`Wire.Ty`), for every schema and either setting of the switches -/
namespace Wire
open Sz

/-- a ztyp container without variable fields (the shape whose decoder ignores trailing bytes today) -/
def Ty.fixedZ : Ty → Bool
  | .zcont s => allFixed s
  | _ => false

/-- a type decoded with fastssz's offset-table list decoder (the one with the `00000000` acceptance): a hand-edited
    container or bare list with a list-of-byte-strings field. ztyp lists are decoded by other code (no such acceptance). -/
def Ty.fastDyn : Ty → Bool
  | .cont s => !(s.all Slot.noDyn)
  | .bare k _ => !(Slot.var k).noDyn
  | _ => false

/-- the size below which a bare-list decoder refuses outright (0 for every other type) -/
def Ty.guard : Ty → Nat
  | .bare _ g => g
  | _ => 0

theorem inLim_cont (s : List Slot) (v : List SVal) : (Ty.cont s).inLim v = all2 inLim s v := rfl
theorem inLim_zcont (s : List Slot) (v : List SVal) : (Ty.zcont s).inLim v = all2 inLim s v := rfl
theorem inLim_bare (k : FK) (g : Nat) (x : SVal) : (Ty.bare k g).inLim [x] = inLim (.var k) x := by
  simp [Ty.inLim, Ty.slots, all2]
theorem inLim_zbare (k : FK) (x : SVal) : (Ty.zbare k).inLim [x] = inLim (.var k) x := by
  simp [Ty.inLim, Ty.slots, all2]
theorem consistent_zbare (k : FK) (h : (Ty.zbare k).consistent = true) : (Slot.var k).consistent = true := by
  simpa [Ty.consistent, Ty.slots] using h
theorem consistent_bare (k : FK) (g : Nat) (h : (Ty.bare k g).consistent = true) : (Slot.var k).consistent = true := by
  simpa [Ty.consistent, Ty.slots] using h

/-- **exactness on encodings**, every type, either switch: the decoder returns the value when it is within the
    declared limits (and the buffer passes the bare-list size guard), and refuses otherwise -/
theorem ty_decode_encode (q : Quirks) (t : Ty) (v : List SVal) (b : List Nat) (hc : t.consistent = true)
    (he : t.encode v = some b) (hsz : b.length < 2 ^ 32) :
    t.decode q b = if t.guard ≤ b.length then (if t.inLim v then some v else none) else none := by
  cases t with
  | cont s =>
    rw [inLim_cont]
    simp only [Ty.decode, Ty.guard, Nat.zero_le, if_true]
    exact decodeSlots_encode q.zeroTail s v b hc he hsz
  | zcont s =>
    rw [inLim_zcont]
    simp only [Ty.guard, Nat.zero_le, if_true]
    have hex := decodeSlots_encode false s v b hc he hsz
    simp only [Ty.decode]
    split
    · rename_i hq
      simp only [Bool.and_eq_true] at hq
      have hl := encodeSlots_fixed_length s v b hq.2 he
      have h1 : ¬ b.length < fixedLen (s.map Slot.segS) := by omega
      have h2 : b.take (fixedLen (s.map Slot.segS)) = b := List.take_of_length_le (by omega)
      simp only [h1, if_false, h2]
      exact hex
    · exact hex
  | bare k g =>
    cases v with
    | nil => simp [Ty.encode] at he
    | cons x r =>
      cases r with
      | cons _ _ => simp [Ty.encode] at he
      | nil =>
        simp only [Ty.encode] at he
        split at he
        · rename_i hok
          simp only [Option.some.injEq] at he
          subst he
          have hx := decSlot_raw q.zeroTail (.var k) x (consistent_bare k g hc) hok (fun _ => hsz)
          rw [inLim_bare]
          simp only [Ty.decode, Ty.guard, hx]
          by_cases hg : g ≤ x.raw.length
          · have : ¬ x.raw.length < g := by omega
            simp only [this, if_false, hg, if_true]
            by_cases hi : inLim (.var k) x = true <;> simp [hi]
          · have : x.raw.length < g := by omega
            simp [this, hg]
        · simp at he

  | zbare k =>
    cases v with
    | nil => simp [Ty.encode] at he
    | cons x r =>
      cases r with
      | cons _ _ => simp [Ty.encode] at he
      | nil =>
        simp only [Ty.encode] at he
        split at he
        · rename_i hok
          simp only [Option.some.injEq] at he
          subst he
          have hx := decSlot_raw false (.var k) x (consistent_zbare k hc) hok (fun _ => hsz)
          rw [inLim_zbare]
          simp only [Ty.decode, Ty.guard, hx, Nat.zero_le, if_true]
          by_cases hi : inLim (.var k) x = true <;> simp [hi]
        · simp at he

/-- **soundness of the decoder**, every type, either switch: what it accepts is within the declared limits;
    and where the switches are off (or cannot matter for the type) it re-encodes to exactly the input -/
theorem ty_decode_sound (q : Quirks) (t : Ty) (b : List Nat) (v : List SVal) (hb : Bytes b)
    (h : t.decode q b = some v) :
    t.inLim v = true ∧
    (t.consistent = true → (q.zeroTail = false ∨ t.fastDyn = false) → (q.trailing = false ∨ t.fixedZ = false) →
      t.encode v = some b) := by
  cases t with
  | cont s =>
    simp only [Ty.decode] at h
    obtain ⟨r1, r2⟩ := decodeSlots_sound q.zeroTail s b v hb h
    refine ⟨r1, fun hc hq _ => r2 hc ?_⟩
    rcases hq with h1 | h1
    · exact Or.inl h1
    · exact Or.inr (by simpa [Ty.fastDyn] using h1)
  | zcont s =>
    simp only [Ty.decode] at h
    split at h
    · rename_i hq
      simp only [Bool.and_eq_true] at hq
      split at h
      · simp at h
      · have hbt : Bytes (b.take (fixedLen (s.map Slot.segS))) := fun x hx => hb x (List.mem_of_mem_take hx)
        obtain ⟨r1, _⟩ := decodeSlots_sound false s _ v hbt h
        refine ⟨r1, ?_⟩
        intro _ _ ht
        rcases ht with ht | ht
        · rw [hq.1] at ht; cases ht
        · simp only [Ty.fixedZ] at ht; rw [hq.2] at ht; cases ht
    · obtain ⟨r1, r2⟩ := decodeSlots_sound false s b v hb h
      exact ⟨r1, fun hc _ _ => r2 hc (Or.inl rfl)⟩
  | bare k g =>
    simp only [Ty.decode] at h
    split at h
    · simp at h
    · cases hd : decSlot q.zeroTail (.var k) b with
      | none => simp [hd] at h
      | some x =>
        simp only [hd, Option.map_some, Option.some.injEq] at h
        subst h
        have hl : rawLenOk (.var k) b := by simp [rawLenOk, Slot.segS]
        obtain ⟨i1, _⟩ := decSlot_inLim q.zeroTail (.var k) b x hd hl hb
        refine ⟨by rw [inLim_bare]; exact i1, ?_⟩
        intro hc hq _
        have hq' : q.zeroTail = false ∨ (Slot.var k).noDyn = true := by
          rcases hq with h1 | h1
          · exact Or.inl h1
          · exact Or.inr (by simpa [Ty.fastDyn] using h1)
        have hraw := decSlot_canon q.zeroTail (.var k) b x hd hl hb hq'
        simp only [Ty.encode, inLim_encOk (.var k) x (consistent_bare k g hc) i1, if_true, hraw]

  | zbare k =>
    simp only [Ty.decode] at h
    cases hd : decSlot false (.var k) b with
    | none => simp [hd] at h
    | some x =>
      simp only [hd, Option.map_some, Option.some.injEq] at h
      subst h
      have hl : rawLenOk (.var k) b := by simp [rawLenOk, Slot.segS]
      obtain ⟨i1, _⟩ := decSlot_inLim false (.var k) b x hd hl hb
      refine ⟨by rw [inLim_zbare]; exact i1, ?_⟩
      intro hc _ _
      have hraw := decSlot_canon false (.var k) b x hd hl hb (Or.inl rfl)
      simp only [Ty.encode, inLim_encOk (.var k) x (consistent_zbare k hc) i1, if_true, hraw]

/-- an in-limit value passes the encoder -/
theorem ty_encode_some (t : Ty) (v : List SVal) (hc : t.consistent = true) (hl : t.inLim v = true) :
    ∃ b, t.encode v = some b := by
  cases t with
  | cont s =>
    refine ⟨encodeC (toC v), ?_⟩
    simp only [Ty.encode, encodeSlots, all2_inLim_encOk s v hc hl, if_true]
  | zcont s =>
    refine ⟨encodeC (toC v), ?_⟩
    simp only [Ty.encode, encodeSlots, all2_inLim_encOk s v hc hl, if_true]
  | bare k g =>
    cases v with
    | nil => simp [Ty.inLim, Ty.slots, all2] at hl
    | cons x r =>
      cases r with
      | cons _ _ => simp [Ty.inLim, Ty.slots, all2] at hl
      | nil =>
        rw [inLim_bare] at hl
        exact ⟨x.raw, by simp only [Ty.encode, inLim_encOk (.var k) x (consistent_bare k g hc) hl, if_true]⟩

  | zbare k =>
    cases v with
    | nil => simp [Ty.inLim, Ty.slots, all2] at hl
    | cons x r =>
      cases r with
      | cons _ _ => simp [Ty.inLim, Ty.slots, all2] at hl
      | nil =>
        rw [inLim_zbare] at hl
        exact ⟨x.raw, by simp only [Ty.encode, inLim_encOk (.var k) x (consistent_zbare k hc) hl, if_true]⟩

theorem ty_inLim_shape (t : Ty) (v : List SVal) (hl : t.inLim v = true) : t.shape v = true :=
  all2_inLim_shape t.slots v hl

/-! ## the switches only ADD acceptances -/

theorem decodeDynQ_mono (zt : Bool) (maxN : Nat) (buf : List Nat) (xs : List (List Nat))
    (h : decodeDynQ false maxN buf = some xs) : decodeDynQ zt maxN buf = some xs := by
  have hd := decodeDynQ_some false maxN buf xs h
  cases xs with
  | cons x r => unfold decodeDynQ; rw [hd]
  | nil =>
    unfold decodeDynQ at h ⊢
    rw [hd] at h ⊢
    simp only [Bool.false_or] at h
    split at h
    · rename_i he; simp [he]
    · simp at h

theorem decSlot_mono (zt : Bool) (sl : Slot) (raw : List Nat) (x : SVal)
    (h : decSlot false sl raw = some x) : decSlot zt sl raw = some x := by
  cases sl with
  | fix n => exact h
  | uint n => exact h
  | fvec c s => exact h
  | var k =>
    cases k with
    | bytes em dm => exact h
    | vec s em dm => exact h
    | bits eb db => exact h
    | nibbles m => exact h
    | dyn en ei dn di =>
      simp only [decSlot] at h ⊢
      cases hd : decodeDynQ false dn raw with
      | none => simp [hd] at h
      | some xs =>
        rw [decodeDynQ_mono zt dn raw xs hd]
        simpa [hd] using h

theorem decAll_mono (zt : Bool) (s : List Slot) : ∀ (rs : List (List Nat)) (v : List SVal),
    decAll false s rs = some v → decAll zt s rs = some v := by
  induction s with
  | nil => intro rs v h; cases rs <;> simp_all [decAll]
  | cons sl s ih =>
    intro rs v h
    cases rs with
    | nil => simp [decAll] at h
    | cons r rs =>
      simp only [decAll] at h ⊢
      cases hd : decSlot false sl r with
      | none => simp [hd] at h
      | some x =>
        rw [decSlot_mono zt sl r x hd]
        simp only [hd] at h
        cases hr : decAll false s rs with
        | none => simp [hr] at h
        | some v' =>
          rw [ih rs v' hr]
          simpa [hr] using h

theorem decodeSlots_mono (zt : Bool) (s : List Slot) (buf : List Nat) (v : List SVal)
    (h : decodeSlots false s buf = some v) : decodeSlots zt s buf = some v := by
  unfold decodeSlots at h ⊢
  cases hd : decodeC (s.map Slot.segS) buf with
  | none => simp [hd] at h
  | some c =>
    simp only [hd] at h ⊢
    cases hr : rawFields c.segs c.vars with
    | none => simp [hr] at h
    | some rs =>
      simp only [hr] at h ⊢
      exact decAll_mono zt s rs v h

/-- every byte string the ideal decoder accepts is accepted, with the same value, by the decoder as implemented -/
theorem ty_decode_mono (q : Quirks) (t : Ty) (b : List Nat) (v : List SVal) (hb : Bytes b)
    (hc : t.consistent = true) (h : t.decode ideal b = some v) : t.decode q b = some v := by
  cases t with
  | cont s =>
    simp only [Ty.decode, ideal] at h ⊢
    exact decodeSlots_mono q.zeroTail s b v h
  | bare k g =>
    simp only [Ty.decode, ideal] at h ⊢
    split at h
    · simp at h
    · rename_i hg
      simp only [hg, if_false]
      cases hd : decSlot false (.var k) b with
      | none => simp [hd] at h
      | some x =>
        rw [decSlot_mono q.zeroTail (.var k) b x hd]
        simpa [hd] using h
  | zcont s =>
    have hen := (ty_decode_sound ideal (.zcont s) b v hb h).2 hc (Or.inl rfl) (Or.inl rfl)
    simp only [Ty.decode, ideal, Bool.false_and] at h
    have h' : decodeSlots false s b = some v := by simpa using h
    simp only [Ty.decode]
    split
    · rename_i hq
      simp only [Bool.and_eq_true] at hq
      have hl := encodeSlots_fixed_length s v b hq.2 hen
      have h1 : ¬ b.length < fixedLen (s.map Slot.segS) := by omega
      have h2 : b.take (fixedLen (s.map Slot.segS)) = b := List.take_of_length_le (by omega)
      simp only [h1, if_false, h2]
      exact h'
    · exact h'

  | zbare k => exact h

/-! ## reading the limit predicate off a value (inversion lemmas) -/

theorem all2_nil {α β : Type} (p : α → β → Bool) (v : List β) (h : all2 p [] v = true) : v = [] := by
  cases v with
  | nil => rfl
  | cons _ _ => simp [all2] at h

theorem all2_cons {α β : Type} (p : α → β → Bool) (a : α) (s : List α) (v : List β)
    (h : all2 p (a :: s) v = true) : ∃ x r, v = x :: r ∧ p a x = true ∧ all2 p s r = true := by
  cases v with
  | nil => simp [all2] at h
  | cons x r =>
    simp only [all2, Bool.and_eq_true] at h
    exact ⟨x, r, rfl, h.1, h.2⟩

theorem inLim_uint (n : Nat) (x : SVal) (h : inLim (.uint n) x = true) : ∃ v, x = .uint n v ∧ v < 256 ^ n := by
  cases x <;> simp [inLim] at h
  rename_i m v
  obtain ⟨rfl, hv⟩ := h
  exact ⟨v, rfl, hv⟩

theorem inLim_fix (n : Nat) (x : SVal) (h : inLim (.fix n) x = true) : ∃ b, x = .fix b ∧ b.length = n := by
  cases x <;> simp [inLim] at h
  exact ⟨_, rfl, h⟩

theorem inLim_bytes (e d : Nat) (x : SVal) (h : inLim (.var (.bytes e d)) x = true) :
    ∃ b, x = .bytes b ∧ b.length ≤ d := by
  cases x <;> simp [inLim] at h
  exact ⟨_, rfl, h⟩

theorem inLim_vec (s e d : Nat) (x : SVal) (h : inLim (.var (.vec s e d)) x = true) :
    ∃ xs, x = .vec xs ∧ xs.length ≤ d ∧ ∀ k ∈ xs, k.length = s := by
  cases x <;> simp [inLim] at h
  exact ⟨_, rfl, h.1, (allLen_iff _ _).1 h.2⟩

theorem inLim_dyn (en ei dn di : Nat) (x : SVal) (h : inLim (.var (.dyn en ei dn di)) x = true) :
    ∃ xs, x = .dyn xs ∧ xs.length ≤ dn ∧ ∀ k ∈ xs, k.length ≤ di := by
  cases x <;> simp [inLim] at h
  exact ⟨_, rfl, h.1, (allLe_iff _ _).1 h.2⟩

theorem inLim_bits (e d : Nat) (x : SVal) (h : inLim (.var (.bits e d)) x = true) :
    ∃ b, x = .bits b ∧ validBits d b = true := by
  cases x <;> simp [inLim] at h
  exact ⟨_, rfl, h⟩

end Wire
