import Shisui.Ssz.WireTy
/-! # C14: size of the encoding of an in-limit value, bounded from the schema

With it the side condition "the encoding is shorter than 2^32 bytes" of the round-trip theorem is discharged
for every schema whose bound is below 2^32 (all of the repository's but the three with 16 MiB / 128 MiB items). -/
namespace Wire
open Sz

/-- most bytes an in-limit value of the slot contributes (fixed part + variable part) -/
def Slot.bound : Slot → Nat
  | .fix n => n
  | .uint n => n
  | .fvec c s => c * s
  | .var (.bytes _ dm) => 4 + dm
  | .var (.vec s _ dm) => 4 + dm * s
  | .var (.dyn _ _ dn di) => 4 + (4 * dn + dn * di)
  | .var (.bits _ db) => 4 + (db / 8 + 1)
  | .var (.nibbles m) => 4 + (m / 2 + 1)

def slotsBound : List Slot → Nat
  | [] => 0
  | sl :: s => sl.bound + slotsBound s

def Ty.bound : Ty → Nat
  | .cont s => slotsBound s
  | .zcont s => slotsBound s
  | .bare k _ => (Slot.var k).bound - 4
  | .zbare k => (Slot.var k).bound - 4

theorem total_le (xs : List (List Nat)) (m : Nat) (h : ∀ x ∈ xs, x.length ≤ m) : total xs ≤ xs.length * m := by
  induction xs with
  | nil => simp [total]
  | cons x r ih =>
    have hx := h x (List.mem_cons_self ..)
    have hr := ih (fun y hy => h y (List.mem_cons_of_mem _ hy))
    rw [total_cons, List.length_cons, Nat.succ_mul]
    omega

theorem packPairs_length : ∀ (ns : List Nat), (packPairs ns).length = ns.length / 2
  | [] => rfl
  | [_] => by simp [packPairs]
  | a :: b :: r => by
    simp only [packPairs, List.length_cons, packPairs_length r]
    omega

theorem encNibbles_length (ns : List Nat) : (encNibbles ns).length = ns.length / 2 + 1 := by
  unfold encNibbles
  split
  · simp [packPairs_length]
  · rename_i hodd
    cases ns with
    | nil => simp at hodd
    | cons n0 r =>
      simp only [List.length_cons] at hodd
      simp only [List.length_cons, packPairs_length]; omega

/-- fixed slots contribute their size to the fixed part, variable slots 4 bytes there and their raw bytes later -/
theorem raw_bound (sl : Slot) (x : SVal) (h : inLim sl x = true) :
    (if sl.isVar then 4 + x.raw.length else x.raw.length) ≤ sl.bound := by
  cases sl with
  | fix n =>
    obtain ⟨b, rfl, hb⟩ := inLim_fix n x h
    simp [Slot.isVar, Slot.bound, SVal.raw, hb]
  | uint n =>
    obtain ⟨v, rfl, _⟩ := inLim_uint n x h
    simp [Slot.isVar, Slot.bound, SVal.raw, leBytes_length]
  | fvec c s =>
    cases x <;> simp [inLim] at h
    rename_i xs
    obtain ⟨rfl, hl⟩ := h
    simp [Slot.isVar, Slot.bound, SVal.raw, flatten_length_const xs s ((allLen_iff xs s).1 hl)]
  | var k =>
    cases k with
    | bytes em dm =>
      obtain ⟨b, rfl, hb⟩ := inLim_bytes em dm x h
      simp only [Slot.isVar, if_true, Slot.bound, SVal.raw]; omega
    | vec s em dm =>
      obtain ⟨xs, rfl, hn, hl⟩ := inLim_vec s em dm x h
      simp only [Slot.isVar, if_true, Slot.bound, SVal.raw, flatten_length_const xs s hl]
      have := Nat.mul_le_mul_right s hn
      omega
    | dyn en ei dn di =>
      obtain ⟨xs, rfl, hn, hl⟩ := inLim_dyn en ei dn di x h
      simp only [Slot.isVar, if_true, Slot.bound, SVal.raw, encodeDyn_length]
      have h1 := total_le xs di hl
      have h2 := Nat.mul_le_mul_right di hn
      omega
    | bits eb db =>
      obtain ⟨b, rfl, hv⟩ := inLim_bits eb db x h
      have := validBits_len db b hv
      simp only [Slot.isVar, if_true, Slot.bound, SVal.raw]; omega
    | nibbles m =>
      cases x <;> simp [inLim] at h
      rename_i ns
      simp only [Slot.isVar, if_true, Slot.bound, SVal.raw, encNibbles_length]
      have : ns.length / 2 ≤ m / 2 := Nat.div_le_div_right h.1
      omega

theorem inLim_isVar (sl : Slot) (x : SVal) (h : inLim sl x = true) : x.isVar = sl.isVar := by
  cases sl with
  | fix n => obtain ⟨b, rfl, _⟩ := inLim_fix n x h; rfl
  | uint n => obtain ⟨v, rfl, _⟩ := inLim_uint n x h; rfl
  | fvec c s => cases x <;> simp [inLim] at h; rfl
  | var k => cases k <;> cases x <;> simp [inLim] at h <;> rfl

theorem fixed_seg_len (sl : Slot) (x : SVal) (h : inLim sl x = true) (hv : sl.isVar = false) :
    sl.segS = .fixed x.raw.length := by
  cases sl with
  | fix n => obtain ⟨b, rfl, hb⟩ := inLim_fix n x h; simp [Slot.segS, SVal.raw, hb]
  | uint n => obtain ⟨v, rfl, _⟩ := inLim_uint n x h; simp [Slot.segS, SVal.raw, leBytes_length]
  | fvec c s =>
    cases x <;> simp [inLim] at h
    rename_i xs
    obtain ⟨rfl, hl⟩ := h
    simp [Slot.segS, SVal.raw, flatten_length_const xs s ((allLen_iff xs s).1 hl)]
  | var k => simp [Slot.isVar] at hv

/-- the two parts of a container image, bounded slot by slot -/
theorem parts_bound (s : List Slot) : ∀ (v : List SVal), all2 inLim s v = true →
    fixedLen (s.map Slot.segS) + total ((v.filter SVal.isVar).map SVal.raw) ≤ slotsBound s := by
  induction s with
  | nil => intro v h; obtain rfl := all2_nil _ _ h; simp [fixedLen, total, slotsBound]
  | cons sl s ih =>
    intro v h
    obtain ⟨x, r, rfl, h1, h2⟩ := all2_cons _ _ _ _ h
    have hr := ih r h2
    have hb := raw_bound sl x h1
    have hv := inLim_isVar sl x h1
    cases hsv : sl.isVar with
    | true =>
      have hx : x.isVar = true := by rw [hv, hsv]
      have hseg : sl.segS = .off := by cases sl <;> simp_all [Slot.isVar, Slot.segS]
      simp only [hsv, if_true] at hb
      simp only [List.map_cons, hseg, fixedLen, List.filter_cons, hx, if_true, total_cons, slotsBound]
      omega
    | false =>
      have hx : x.isVar = false := by rw [hv, hsv]
      have hseg := fixed_seg_len sl x h1 hsv
      simp only [hsv, Bool.false_eq_true, if_false] at hb
      simp only [List.map_cons, hseg, fixedLen, List.filter_cons, hx, Bool.false_eq_true, if_false, slotsBound]
      omega

/-- **size bound**: the encoding of an in-limit value is at most `t.bound` bytes long -/
theorem ty_encode_bound (t : Ty) (v : List SVal) (b : List Nat) (hc : t.consistent = true)
    (hl : t.inLim v = true) (he : t.encode v = some b) : b.length ≤ t.bound := by
  have slots_case : ∀ (s : List Slot), s.all Slot.consistent = true → all2 inLim s v = true →
      encodeSlots s v = some b → b.length ≤ slotsBound s := by
    intro s hcs hls hes
    unfold encodeSlots at hes
    split at hes
    · rename_i hok
      simp only [Option.some.injEq] at hes
      subst hes
      obtain ⟨e1, e2⟩ := schema_toC s v hok
      have hn : nOff ((toC v).segs.map Seg.schema) = (toC v).vars.length := e2
      rw [encodeC_length (toC v) hn]
      have hs : (toC v).segs.map Seg.schema = s.map Slot.segS := e1
      rw [hs]
      exact parts_bound s v hls
    · simp at hes
  cases t with
  | cont s => exact slots_case s hc hl he
  | zcont s => exact slots_case s hc hl he
  | bare k g =>
    cases v with
    | nil => simp [Ty.encode] at he
    | cons x r =>
      cases r with
      | cons _ _ => simp [Ty.encode] at he
      | nil =>
        rw [inLim_bare] at hl
        simp only [Ty.encode] at he
        split at he
        · simp only [Option.some.injEq] at he; subst he
          have := raw_bound (.var k) x hl
          simp only [Slot.isVar, if_true] at this
          simp only [Ty.bound]; omega
        · simp at he
  | zbare k =>
    cases v with
    | nil => simp [Ty.encode] at he
    | cons x r =>
      cases r with
      | cons _ _ => simp [Ty.encode] at he
      | nil =>
        rw [inLim_zbare] at hl
        simp only [Ty.encode] at he
        split at he
        · simp only [Option.some.injEq] at he; subst he
          have := raw_bound (.var k) x hl
          simp only [Slot.isVar, if_true] at this
          simp only [Ty.bound]; omega
        · simp at he

end Wire
