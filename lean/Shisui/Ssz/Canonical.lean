import Shisui.Ssz.Container
namespace Sz

def Bytes (l : List Nat) : Prop := ∀ x ∈ l, x < 256

theorem u32le_rd32 (a b c d : Nat) (rest : List Nat) (ha : a < 256) (hb : b < 256) (hc : c < 256) (hd : d < 256) :
    u32le (a + 256 * b + 65536 * c + 16777216 * d) = [a, b, c, d] := by
  simp only [u32le, List.cons.injEq, and_true]
  refine ⟨by omega, by omega, by omega, by omega⟩

/-- what `cut` returns is a partition of the source from the first offset to `size` -/
theorem cut_partition (src : List Nat) (size : Nat) (hsz : size = src.length) :
    ∀ (offs : List Nat) (vs : List (List Nat)), cut src size offs = some vs →
      ∀ o rest, offs = o :: rest → offs = offsetsOf o vs ∧ vs.flatten = (src.drop o).take (size - o) ∧ o ≤ size := by
  intro offs
  induction offs with
  | nil => intro vs _ o rest h; simp at h
  | cons o rest ih =>
    intro vs hcut o' rest' heq
    simp only [List.cons.injEq] at heq
    obtain ⟨rfl, rfl⟩ := heq
    cases rest with
    | nil =>
      simp only [cut] at hcut
      split at hcut
      · rename_i hle
        simp only [Option.some.injEq] at hcut
        subst hcut
        simp [offsetsOf, hle]
      · simp at hcut
    | cons o2 rest2 =>
      simp only [cut] at hcut
      split at hcut
      · rename_i hle
        cases hrec : cut src size (o2 :: rest2) with
        | none => simp [hrec] at hcut
        | some vs' =>
          simp only [hrec, Option.map_some, Option.some.injEq] at hcut
          subst hcut
          obtain ⟨h1, h2, h3⟩ := ih vs' hrec o2 rest2 rfl
          refine ⟨?_, ?_, by omega⟩
          · simp only [offsetsOf, List.cons.injEq, true_and]
            have hl : ((src.drop o).take (o2 - o)).length = o2 - o := by
              simp only [List.length_take, List.length_drop]; omega
            rw [hl]
            have : o + (o2 - o) = o2 := by omega
            rw [this]; exact h1
          · simp only [List.flatten_cons, h2]
            -- take (o2-o) (drop o src) ++ take (size-o2) (drop o2 src) = take (size-o) (drop o src)
            have e1 : src.drop o2 = (src.drop o).drop (o2 - o) := by
              rw [List.drop_drop]; congr 1; omega
            rw [e1]
            have e2 : size - o = (o2 - o) + (size - o2) := by omega
            rw [e2, List.take_add]
      · simp at hcut

theorem rd32_canon (buf : List Nat) (o : Nat) (rest : List Nat) (hb : Bytes buf) (h : rd32 buf = some (o, rest)) :
    u32le o ++ rest = buf ∧ Bytes rest := by
  match buf, h with
  | a :: b :: c :: d :: r, h =>
    simp only [rd32, Option.some.injEq, Prod.mk.injEq] at h
    obtain ⟨rfl, rfl⟩ := h
    have ha := hb a (by simp); have hb' := hb b (by simp); have hc := hb c (by simp); have hd := hb d (by simp)
    rw [u32le_rd32 a b c d r ha hb' hc hd]
    exact ⟨rfl, fun x hx => hb x (by simp [hx])⟩

theorem decFixed_canon (schema : List SegS) : ∀ (buf : List Nat) (segs : List Seg) (offs : List Nat),
    Bytes buf → decFixed schema buf = some (segs, offs) →
    segs.map Seg.schema = schema ∧ nOff schema = offs.length ∧
    encFixed segs offs ++ buf.drop (fixedLen schema) = buf ∧ fixedLen schema ≤ buf.length := by
  induction schema with
  | nil =>
    intro buf segs offs _ h
    simp only [decFixed, Option.some.injEq, Prod.mk.injEq] at h
    obtain ⟨rfl, rfl⟩ := h
    simp [nOff, encFixed, fixedLen]
  | cons sg r ih =>
    intro buf segs offs hb h
    cases sg with
    | fixed n =>
      simp only [decFixed] at h
      split at h
      · simp at h
      · rename_i hlen
        cases hrec : decFixed r (buf.drop n) with
        | none => simp [hrec] at h
        | some p =>
          simp only [hrec, Option.map_some, Option.some.injEq, Prod.mk.injEq] at h
          obtain ⟨rfl, rfl⟩ := h
          obtain ⟨h1, h2, h3, h4⟩ := ih (buf.drop n) p.1 p.2 (fun x hx => hb x (List.mem_of_mem_drop hx)) (by rw [hrec])
          have hlt : (buf.take n).length = n := by simp only [List.length_take]; omega
          refine ⟨by simp [Seg.schema, h1, hlt], by simpa [nOff] using h2, ?_, ?_⟩
          · simp only [encFixed, fixedLen, List.append_assoc]
            have : buf.drop (n + fixedLen r) = (buf.drop n).drop (fixedLen r) := by rw [List.drop_drop]
            rw [this, h3, List.take_append_drop]
          · simp only [fixedLen, List.length_drop] at h4 ⊢; omega
    | off =>
      simp only [decFixed] at h
      cases hr : rd32 buf with
      | none => simp [hr] at h
      | some q =>
        obtain ⟨o, rest⟩ := q
        simp only [hr] at h
        cases hrec : decFixed r rest with
        | none => simp [hrec] at h
        | some p =>
          simp only [hrec, Option.map_some, Option.some.injEq, Prod.mk.injEq] at h
          obtain ⟨rfl, rfl⟩ := h
          obtain ⟨hcan, hbr⟩ := rd32_canon buf o rest hb hr
          obtain ⟨h1, h2, h3, h4⟩ := ih rest p.1 p.2 hbr (by rw [hrec])
          refine ⟨by simp [Seg.schema, h1], by simp [nOff, h2]; omega, ?_, ?_⟩
          · simp only [encFixed, fixedLen, List.append_assoc]
            have hd : buf.drop (4 + fixedLen r) = rest.drop (fixedLen r) := by
              rw [← hcan]
              have : (u32le o).length = 4 := by simp [u32le]
              have e : 4 + fixedLen r = (u32le o).length + fixedLen r := by omega
              rw [e, ← List.drop_drop, List.drop_left]
            rw [hd, h3, hcan]
          · rw [← hcan]; simp only [fixedLen, List.length_append, u32le, List.length_cons, List.length_nil]; omega

/-- C14 canonicity for every container of this shape: a byte string that decodes re-encodes to itself -/
theorem decodeC_canonical (schema : List SegS) (buf : List Nat) (c : CVal) (hb : Bytes buf)
    (h : decodeC schema buf = some c) : encodeC c = buf ∧ c.segs.map Seg.schema = schema := by
  unfold decodeC at h
  split at h
  · simp at h
  · cases hf : decFixed schema buf with
    | none => simp [hf] at h
    | some p =>
      obtain ⟨segs, offs⟩ := p
      simp only [hf] at h
      obtain ⟨h1, h2, h3, h4⟩ := decFixed_canon schema buf segs offs hb hf
      cases offs with
      | nil =>
        simp only at h
        split at h
        · rename_i hlen
          simp only [Option.some.injEq] at h
          subst h
          refine ⟨?_, h1⟩
          simp only [encodeC, offsetsOf, List.flatten_nil, List.append_nil]
          have : buf.drop (fixedLen schema) = [] := by
            apply List.drop_eq_nil_of_le; omega
          rw [this, List.append_nil] at h3
          exact h3
        · simp at h
      | cons o rest =>
        simp only at h
        split at h
        · simp at h
        · rename_i ho
          have ho' : o = fixedLen schema := by simpa using ho
          cases hc : cut buf buf.length (o :: rest) with
          | none => simp [hc] at h
          | some vs =>
            simp only [hc, Option.map_some, Option.some.injEq] at h
            subst h
            obtain ⟨p1, p2, p3⟩ := cut_partition buf buf.length rfl (o :: rest) vs hc o rest rfl
            refine ⟨?_, h1⟩
            simp only [encodeC, h1]
            rw [← ho', ← p1, p2]
            have : (buf.drop o).take (buf.length - o) = buf.drop o := by
              apply List.take_of_length_le; simp
            rw [this]
            subst ho'
            exact h3

#print axioms decodeC_canonical

end Sz
