import Shisui.Ssz.Canonical
import Shisui.Ssz.CutFast
/-! # C14 model: schema-driven SSZ codec for the hand-edited fastssz containers and the ztyp payloads

A *type* is a list of slots (fastssz container / ztyp container) or one bare variable-size field.
Fixed slots: raw bytes, little-endian unsigned integers, vectors of fixed-size chunks. Variable slots
(`FK`): byte list, list of fixed-size items (`DivideInt2`), list of byte strings with an offset table
(`DecodeDynamicLength` + `UnmarshalDynamic`, `Sz.decodeDyn`), bit list (`ValidateBitlist`).
Every kind carries the ENCODER's limits and the DECODER's limits separately, as found in the code.

The container layer is `Sz.encodeC` / `Sz.decodeC` (size guard = fixed size, first offset = fixed size,
later offsets monotone and within the buffer). Bytes are `Nat`s; `Sz.Bytes` says "all below 256".

Deviations of the code as it is today are Boolean switches (`Quirks`): all `false` = ideal codec. -/
namespace Wire
open Sz

/-! ## little-endian integers -/

def leBytes : Nat → Nat → List Nat
  | 0, _ => []
  | n + 1, v => v % 256 :: leBytes n (v / 256)

def leNat : List Nat → Nat
  | [] => 0
  | b :: r => b + 256 * leNat r

/-! ## chunks of a fixed size -/

/-- the first `n` chunks of `k` bytes -/
def chunks (k : Nat) : Nat → List Nat → List (List Nat)
  | 0, _ => []
  | n + 1, b => b.take k :: chunks k n (b.drop k)

/-! ## bit lists (fastssz `ValidateBitlist`) -/

/-- `bits.Len8`-style bit length, with fuel -/
def bitLen : Nat → Nat → Nat
  | 0, _ => 0
  | f + 1, x => if x = 0 then 0 else 1 + bitLen f (x / 2)

/-- `ValidateBitlist(buf, maxBits)`: non-empty, at most `maxBits/8 + 1` bytes, last byte non-zero,
    number of bits below the sentinel at most `maxBits` -/
def validBits (maxBits : Nat) (b : List Nat) : Bool :=
  match b.getLast? with
  | none => false
  | some last =>
    decide (b.length ≤ maxBits / 8 + 1) && decide (last ≠ 0) &&
      decide (8 * (b.length - 1) + bitLen 8 last - 1 ≤ maxBits)

/-! ## packed nibble paths (state network `Nibbles`) -/

def packPairs : List Nat → List Nat
  | a :: b :: r => (a * 16 + b) :: packPairs r
  | _ => []

def unpackNibbles (bs : List Nat) : List Nat := bs.flatMap fun b => [b / 16, b % 16]

/-- `Nibbles.Serialize`: a flag byte (0x00 for an even count, 0x10 | first nibble for an odd one), then pairs -/
def encNibbles (ns : List Nat) : List Nat :=
  if ns.length % 2 = 0 then 0 :: packPairs ns
  else match ns with
    | n0 :: r => (16 + n0) :: packPairs r
    | [] => []

/-- `Nibbles.Deserialize` + `FromUnpackedNibbles` -/
def decNibbles (maxN : Nat) : List Nat → Option (List Nat)
  | [] => none
  | b :: rest =>
    if b / 16 = 0 then
      (if b % 16 ≠ 0 then none
       else if (unpackNibbles rest).length ≤ maxN then some (unpackNibbles rest) else none)
    else if b / 16 = 1 then
      (if (b % 16 :: unpackNibbles rest).length ≤ maxN then some (b % 16 :: unpackNibbles rest) else none)
    else none

def allNib (ns : List Nat) : Bool := ns.all fun n => decide (n < 16)

/-! ## the offset-table list with its switch -/

/-- `zt = true`: as implemented (`Sz.decodeDyn`: the 4 bytes `00000000` are accepted as the empty list);
    `zt = false`: ideal — the empty list is decoded from the empty buffer only -/
def decodeDynQ (zt : Bool) (maxN : Nat) (buf : List Nat) : Option (List (List Nat)) :=
  match decodeDyn maxN buf with
  | some [] => if zt || buf.isEmpty then some [] else none
  | r => r

/-! ## schemas and values -/

/-- kind of a variable-size field, with the encoder's and the decoder's limits -/
inductive FK where
  | bytes (encMax decMax : Nat)
  | vec (size encMaxN decMaxN : Nat)
  | dyn (encMaxN encMaxItem decMaxN decMaxItem : Nat)
  | bits (encMaxBytes decMaxBits : Nat)
  | nibbles (maxN : Nat)
deriving DecidableEq, Repr

inductive Slot where
  | fix (n : Nat)                  -- n raw bytes
  | uint (n : Nat)                 -- little-endian unsigned integer of n bytes
  | fvec (count size : Nat)        -- vector of `count` chunks of `size` bytes
  | var (k : FK)                   -- 4-byte offset; the field lives in the variable part
deriving DecidableEq, Repr

inductive SVal where
  | fix (b : List Nat)
  | uint (n v : Nat)
  | fvec (xs : List (List Nat))
  | bytes (b : List Nat)
  | vec (xs : List (List Nat))
  | dyn (xs : List (List Nat))
  | bits (b : List Nat)
  | nibbles (ns : List Nat)
deriving DecidableEq, Repr

/-- the bytes a field contributes (to the fixed part, or to the variable part) -/
def SVal.raw : SVal → List Nat
  | .fix b => b
  | .uint n v => leBytes n v
  | .fvec xs => xs.flatten
  | .bytes b => b
  | .vec xs => xs.flatten
  | .dyn xs => encodeDyn xs
  | .bits b => b
  | .nibbles ns => encNibbles ns

def SVal.isVar : SVal → Bool
  | .fix _ => false
  | .uint _ _ => false
  | .fvec _ => false
  | _ => true

def Slot.isVar : Slot → Bool
  | .var _ => true
  | _ => false

def Slot.segS : Slot → SegS
  | .fix n => .fixed n
  | .uint n => .fixed n
  | .fvec c s => .fixed (c * s)
  | .var _ => .off

def allLen (xs : List (List Nat)) (n : Nat) : Bool := xs.all fun x => decide (x.length = n)
def allLe (xs : List (List Nat)) (n : Nat) : Bool := xs.all fun x => decide (x.length ≤ n)

/-- shape: the value is of the slot's kind (what Go's static types guarantee) -/
def shape : Slot → SVal → Bool
  | .fix _, .fix _ => true
  | .uint n, .uint m v => decide (m = n) && decide (v < 256 ^ n)
  | .fvec _ _, .fvec _ => true
  | .var (.bytes _ _), .bytes _ => true
  | .var (.vec s _ _), .vec xs => allLen xs s
  | .var (.dyn _ _ _ _), .dyn _ => true
  | .var (.bits _ _), .bits _ => true
  | .var (.nibbles _), .nibbles ns => allNib ns
  | _, _ => false

/-- the checks `MarshalSSZTo` makes (`size != N`, `size > MAX`) -/
def encOk : Slot → SVal → Bool
  | .fix n, .fix b => decide (b.length = n)
  | .uint n, .uint m v => decide (m = n) && decide (v < 256 ^ n)
  | .fvec c s, .fvec xs => decide (xs.length = c) && allLen xs s
  | .var (.bytes em _), .bytes b => decide (b.length ≤ em)
  | .var (.vec s em _), .vec xs => decide (xs.length ≤ em) && allLen xs s
  | .var (.dyn en ei _ _), .dyn xs => decide (xs.length ≤ en) && allLe xs ei
  | .var (.bits eb _), .bits b => decide (b.length ≤ eb)
  | .var (.nibbles _), .nibbles ns => allNib ns      -- no check in the code: nibbles are < 16 by construction
  | _, _ => false

/-- "in-limit value": the declared limits, which are the ones `UnmarshalSSZ` enforces -/
def inLim : Slot → SVal → Bool
  | .fix n, .fix b => decide (b.length = n)
  | .uint n, .uint m v => decide (m = n) && decide (v < 256 ^ n)
  | .fvec c s, .fvec xs => decide (xs.length = c) && allLen xs s
  | .var (.bytes _ dm), .bytes b => decide (b.length ≤ dm)
  | .var (.vec s _ dm), .vec xs => decide (xs.length ≤ dm) && allLen xs s
  | .var (.dyn _ _ dn di), .dyn xs => decide (xs.length ≤ dn) && allLe xs di
  | .var (.bits _ db), .bits b => validBits db b
  | .var (.nibbles m), .nibbles ns => decide (ns.length ≤ m) && allNib ns
  | _, _ => false

/-- decoder of one field from its raw bytes -/
def decSlot (zt : Bool) : Slot → List Nat → Option SVal
  | .fix _, raw => some (.fix raw)
  | .uint n, raw => some (.uint n (leNat raw))
  | .fvec c s, raw => some (.fvec (chunks s c raw))
  | .var (.bytes _ dm), raw => if raw.length ≤ dm then some (.bytes raw) else none
  | .var (.vec s _ dm), raw =>
    if raw.length % s ≠ 0 then none
    else if raw.length / s > dm then none
    else some (.vec (chunks s (raw.length / s) raw))
  | .var (.dyn _ _ dn di), raw =>
    match decodeDynQ zt dn raw with
    | none => none
    | some xs => if allLe xs di then some (.dyn xs) else none
  | .var (.bits _ db), raw => if validBits db raw then some (.bits raw) else none
  | .var (.nibbles m), raw =>
    match decNibbles m raw with
    | none => none
    | some ns => some (.nibbles ns)

/-- a slot whose decoder limits are within its encoder limits and whose item size is positive -/
def Slot.consistent : Slot → Bool
  | .var (.bytes em dm) => decide (dm ≤ em)
  | .var (.vec s em dm) => decide (0 < s) && decide (dm ≤ em)
  | .var (.dyn en ei dn di) => decide (dn ≤ en) && decide (di ≤ ei)
  | .var (.bits eb db) => decide (db / 8 + 1 ≤ eb)
  | _ => true

def Slot.noDyn : Slot → Bool
  | .var (.dyn _ _ _ _) => false
  | _ => true

def all2 {α β : Type} (p : α → β → Bool) : List α → List β → Bool
  | [], [] => true
  | a :: as, b :: bs => p a b && all2 p as bs
  | _, _ => false

/-! ## container level -/

def segOf (x : SVal) : Seg := if x.isVar then Seg.off else Seg.fixed x.raw

def toC (v : List SVal) : CVal :=
  { segs := v.map segOf, vars := (v.filter SVal.isVar).map SVal.raw }

/-- `MarshalSSZ` of a container: the per-field checks, then fixed part with offsets, then variable part -/
def encodeSlots (s : List Slot) (v : List SVal) : Option (List Nat) :=
  if all2 encOk s v then some (encodeC (toC v)) else none

/-- raw bytes of every field in slot order -/
def rawFields : List Seg → List (List Nat) → Option (List (List Nat))
  | [], [] => some []
  | [], _ :: _ => none
  | .fixed b :: sg, vs => (rawFields sg vs).map (b :: ·)
  | .off :: sg, x :: vs => (rawFields sg vs).map (x :: ·)
  | .off :: _, [] => none

def decAll (zt : Bool) : List Slot → List (List Nat) → Option (List SVal)
  | [], [] => some []
  | sl :: s, r :: rs =>
    match decSlot zt sl r with
    | none => none
    | some x => (decAll zt s rs).map (x :: ·)
  | _, _ => none

/-- `UnmarshalSSZ` of a container -/
def decodeSlots (zt : Bool) (s : List Slot) (buf : List Nat) : Option (List SVal) :=
  match decodeC (s.map Slot.segS) buf with
  | none => none
  | some c =>
    match rawFields c.segs c.vars with
    | none => none
    | some rs => decAll zt s rs

/-! ## types -/

/-- deviations of today's code; all `false` = ideal -/
structure Quirks where
  zeroTail : Bool := false     -- fastssz `UnmarshalDynamic` accepts the 4 bytes 00000000 as an empty list
  trailing : Bool := false     -- ztyp containers without variable fields ignore bytes after their last field
deriving DecidableEq, Repr

def asImplemented : Quirks := { zeroTail := true, trailing := true }
def ideal : Quirks := {}

inductive Ty where
  | cont (slots : List Slot)          -- hand-edited fastssz container
  | bare (k : FK) (guard : Nat)       -- one variable field is the whole buffer; decoder wants ≥ guard bytes
  | zcont (slots : List Slot)         -- ztyp `Container` / `FixedLenContainer`
  | zbare (k : FK)                    -- one ztyp variable field is the whole buffer (`List`, `ByteList`, `Nibbles`)
deriving DecidableEq, Repr

def Ty.slots : Ty → List Slot
  | .cont s => s
  | .bare k _ => [.var k]
  | .zcont s => s
  | .zbare k => [.var k]

def Ty.encode : Ty → List SVal → Option (List Nat)
  | .cont s, v => encodeSlots s v
  | .zcont s, v => encodeSlots s v
  | .bare k _, [x] => if encOk (.var k) x then some x.raw else none
  | .bare _ _, _ => none
  | .zbare k, [x] => if encOk (.var k) x then some x.raw else none
  | .zbare _, _ => none

def allFixed (s : List Slot) : Bool := s.all fun sl => !sl.isVar

def Ty.decode (q : Quirks) : Ty → List Nat → Option (List SVal)
  | .cont s, buf => decodeSlots q.zeroTail s buf
  | .bare k g, buf => if buf.length < g then none else (decSlot q.zeroTail (.var k) buf).map ([·])
  | .zcont s, buf =>
    if q.trailing && allFixed s then
      (if buf.length < fixedLen (s.map Slot.segS) then none
       else decodeSlots false s (buf.take (fixedLen (s.map Slot.segS))))
    else decodeSlots false s buf
  | .zbare k, buf => (decSlot false (.var k) buf).map ([·])

def Ty.shape (t : Ty) (v : List SVal) : Bool := all2 Wire.shape t.slots v
def Ty.inLim (t : Ty) (v : List SVal) : Bool := all2 Wire.inLim t.slots v
def Ty.consistent (t : Ty) : Bool := t.slots.all Slot.consistent
def Ty.noDyn (t : Ty) : Bool := t.slots.all Slot.noDyn

end Wire
