/-! Prototype of the SSZ "list of variable-size byte strings" codec (fastssz DecodeDynamicLength +
    UnmarshalDynamic), core only. Bytes are `Nat`s (< 256 is a separate well-formedness fact). -/
namespace Sz

def u32le (n : Nat) : List Nat := [n % 256, n / 256 % 256, n / 65536 % 256, n / 16777216 % 256]

def rd32 : List Nat → Option (Nat × List Nat)
  | a :: b :: c :: d :: rest => some (a + 256 * b + 65536 * c + 16777216 * d, rest)
  | _ => none

theorem rd32_u32le (n : Nat) (rest : List Nat) (h : n < 2 ^ 32) : rd32 (u32le n ++ rest) = some (n, rest) := by
  simp only [u32le, List.cons_append, List.nil_append, rd32, Option.some.injEq, Prod.mk.injEq, and_true]
  omega

/-- offsets of consecutive items starting at `start` -/
def offsetsOf (start : Nat) : List (List Nat) → List Nat
  | [] => []
  | x :: xs => start :: offsetsOf (start + x.length) xs

def encodeDyn (items : List (List Nat)) : List Nat :=
  (offsetsOf (4 * items.length) items).flatMap u32le ++ items.flatten

/-- read `n` consecutive little-endian u32 values -/
def readN : Nat → List Nat → Option (List Nat)
  | 0, _ => some []
  | n + 1, buf =>
    match rd32 buf with
    | none => none
    | some (o, rest) => (readN n rest).map (o :: ·)

/-- slice `src` at consecutive offsets; the last item ends at `size` -/
def cut (src : List Nat) (size : Nat) : List Nat → Option (List (List Nat))
  | [] => some []
  | [o] => if o ≤ size then some [(src.drop o).take (size - o)] else none
  | o :: o' :: rest =>
    if o ≤ o' ∧ o' ≤ size then (cut src size (o' :: rest)).map ((src.drop o).take (o' - o) :: ·) else none

/-- as implemented today: a 4-byte buffer whose first offset is 0 is accepted as the empty list -/
def decodeDyn (maxN : Nat) (buf : List Nat) : Option (List (List Nat)) :=
  if buf = [] then some [] else
  match rd32 buf with
  | none => none
  | some (o0, _) =>
    if o0 % 4 ≠ 0 then none
    else if o0 / 4 > maxN then none
    else if o0 / 4 = 0 then (if buf.length = 4 then some [] else none)
    else match readN (o0 / 4) buf with
      | none => none
      | some offs => cut buf buf.length offs

#eval encodeDyn [[1,2,3],[],[9]]
#eval decodeDyn 64 (encodeDyn [[1,2,3],[],[9]])
#eval decodeDyn 64 [0,0,0,0]          -- the non-canonical hole
#eval decodeDyn 64 (encodeDyn [])

theorem offsetsOf_length (s : Nat) (items : List (List Nat)) : (offsetsOf s items).length = items.length := by
  induction items generalizing s with
  | nil => rfl
  | cons x xs ih => simp [offsetsOf, ih]

def total (items : List (List Nat)) : Nat := items.flatten.length

theorem total_cons (x : List Nat) (xs : List (List Nat)) : total (x :: xs) = x.length + total xs := by
  simp [total]

/-- every offset is below start + total size -/
theorem offsetsOf_lt (s : Nat) (items : List (List Nat)) : ∀ o ∈ offsetsOf s items, o ≤ s + total items := by
  induction items generalizing s with
  | nil => simp [offsetsOf]
  | cons x xs ih =>
    intro o ho
    simp only [offsetsOf, List.mem_cons] at ho
    rw [total_cons]
    rcases ho with rfl | ho
    · omega
    · have := ih _ o ho; omega

theorem readN_table (offs : List Nat) (rest : List Nat) (h : ∀ o ∈ offs, o < 2 ^ 32) :
    readN offs.length (offs.flatMap u32le ++ rest) = some offs := by
  induction offs with
  | nil => rfl
  | cons o os ih =>
    simp only [List.length_cons, List.flatMap_cons, List.append_assoc, readN]
    rw [rd32_u32le o _ (h o (List.mem_cons_self ..))]
    simp only [ih (fun o' ho' => h o' (List.mem_cons_of_mem _ ho')), Option.map_some]

theorem drop_take_mid (pre x post : List Nat) : ((pre ++ x ++ post).drop pre.length).take x.length = x := by
  simp [List.append_assoc]

/-- slicing the concatenation at the running offsets gives the items back -/
theorem cut_items (pre : List Nat) (items : List (List Nat)) (post : List Nat) (hne : items ≠ []) :
    ∀ (src : List Nat) (size : Nat) (done : List Nat),
      src = pre ++ done ++ items.flatten → size = src.length →
      cut src size (offsetsOf (pre.length + done.length) items) = some items := by
  induction items with
  | nil => exact absurd rfl hne
  | cons x xs ih =>
    intro src size done hsrc hsize
    cases xs with
    | nil =>
      simp only [offsetsOf, cut]
      subst hsrc
      have hlen : size = pre.length + done.length + x.length := by simp [hsize]; omega
      have : pre.length + done.length ≤ size := by omega
      simp only [this, if_true]
      have e : size - (pre.length + done.length) = x.length := by omega
      rw [e]
      have := drop_take_mid (pre ++ done) x []
      simp only [List.append_nil, List.length_append] at this
      simp only [List.flatten_cons, List.flatten_nil, List.append_nil]
      rw [this]
    | cons y ys =>
      simp only [offsetsOf, cut]
      subst hsrc
      have hsz : size = pre.length + done.length + x.length + (y :: ys).flatten.length := by
        simp [hsize]; omega
      have c1 : pre.length + done.length ≤ pre.length + done.length + x.length ∧
          pre.length + done.length + x.length ≤ size := by omega
      simp only [c1, and_self, if_true]
      have ih' := ih (by simp) (pre ++ done ++ (x :: y :: ys).flatten) size (done ++ x)
        (by simp [List.append_assoc]) hsize
      simp only [List.length_append, ← Nat.add_assoc] at ih'
      simp only [offsetsOf] at ih'
      rw [ih']
      simp only [Option.map_some, Option.some.injEq, List.cons.injEq, and_true]
      have e : pre.length + done.length + x.length - (pre.length + done.length) = x.length := by omega
      rw [e]
      have := drop_take_mid (pre ++ done) x ((y :: ys).flatten)
      simp only [List.length_append] at this
      simp only [List.flatten_cons] at this ⊢
      simpa [List.append_assoc] using this

theorem table_length (offs : List Nat) : (offs.flatMap u32le).length = 4 * offs.length := by
  induction offs with
  | nil => rfl
  | cons o os ih => simp [List.flatMap_cons, u32le, ih]; omega

/-- C14 core: decoding the encoding of any in-limit list yields that list -/
theorem decode_encode (maxN : Nat) (items : List (List Nat))
    (hn : items.length ≤ maxN) (hsz : 4 * items.length + total items < 2 ^ 32) :
    decodeDyn maxN (encodeDyn items) = some items := by
  cases items with
  | nil => simp [encodeDyn, offsetsOf, decodeDyn]
  | cons x xs =>
    have hoffs : ∀ o ∈ offsetsOf (4 * (x :: xs).length) (x :: xs), o < 2 ^ 32 := by
      intro o ho
      have := offsetsOf_lt _ _ o ho
      omega
    have hlenpos : 0 < (x :: xs).length := by simp
    unfold decodeDyn
    have hne : encodeDyn (x :: xs) ≠ [] := by
      simp [encodeDyn, offsetsOf, u32le]
    simp only [hne, if_false]
    -- first offset
    have hfirst : rd32 (encodeDyn (x :: xs)) = some (4 * (x :: xs).length,
        (offsetsOf (4 * (x :: xs).length + x.length) xs).flatMap u32le ++ (x :: xs).flatten) := by
      simp only [encodeDyn, offsetsOf, List.flatMap_cons, List.append_assoc]
      exact rd32_u32le _ _ (hoffs _ (by simp [offsetsOf]))
    rw [hfirst]
    simp only
    have h4 : 4 * (x :: xs).length % 4 = 0 := by omega
    have hdiv : 4 * (x :: xs).length / 4 = (x :: xs).length := by omega
    simp only [h4, hdiv, ne_eq, not_true_eq_false, if_false]
    have hgt : ¬ (x :: xs).length > maxN := by omega
    have hz : ¬ (x :: xs).length = 0 := by omega
    simp only [hgt, hz, if_false]
    have hr := readN_table (offsetsOf (4 * (x :: xs).length) (x :: xs)) ((x :: xs).flatten) hoffs
    rw [offsetsOf_length] at hr
    have henc : encodeDyn (x :: xs) =
        (offsetsOf (4 * (x :: xs).length) (x :: xs)).flatMap u32le ++ (x :: xs).flatten := rfl
    rw [henc, hr]
    simp only
    have hc := cut_items ((offsetsOf (4 * (x :: xs).length) (x :: xs)).flatMap u32le) (x :: xs) [] (by simp)
      ((offsetsOf (4 * (x :: xs).length) (x :: xs)).flatMap u32le ++ (x :: xs).flatten) _ []
      (by simp) rfl
    simp only [table_length, offsetsOf_length, List.length_nil, Nat.add_zero] at hc
    exact hc

#print axioms decode_encode

end Sz
