import Shisui.Dispatch
import Shisui.DispatchVal
/-! # C01 lemmas: the ideal model (`Quirks` all off) never yields `panic`; loops are bounded; the quirked model
    exhibits each finding on a concrete input. -/
namespace Dp

/-! ## adapters -/

theorem historyGet_noPanic (e : Env) (key : List Nat) : (historyGet {} e key).isPanic = false := by
  unfold historyGet
  split
  · exact guard1_ideal _ _ (lookup_noPanic e [])
  · rfl
  · exact lookup_noPanic e _

theorem historyPut_noPanic (key : List Nat) : (historyPut {} key).isPanic = false := by
  unfold historyPut
  split
  · exact guard1_ideal _ _ rfl
  · rfl

theorem stateGet_noPanic (e : Env) (key : List Nat) : (stateGet e key).isPanic = false := lookup_noPanic e key

theorem beaconGet_noPanic (e : Env) (hw : SumWf e) (key : List Nat) : (beaconGet {} e key).isPanic = false := by
  unfold beaconGet
  split
  · exact guard1_ideal _ _ rfl
  · exact lookup_noPanic e _
  · split
    · rfl
    · exact updatesWalk_noPanic _ _ _ _
  · split
    · rfl
    · split
      · split <;> rfl
      · rfl
  · split
    · rfl
    · split
      · split <;> rfl
      · rfl
  · rename_i body
    split
    · rfl
    · rename_i pre n hs
      obtain ⟨hn, hp⟩ := hw pre n hs
      by_cases hb : body.length < 8
      · simp [hb, Out.isPanic]
      · have hn' : ¬ n < 8 := by omega
        simp only [hb, hn', decide_false, Bool.and_false, Bool.false_eq_true, if_false]
        have hne := reverseCompare_inb pre body (by omega)
        split
        · exact absurd ‹reverseCompare pre body = Cmp.oob› hne
        · rfl
        · rfl
  · rfl

theorem getOut_noPanic (net : Net) (e : Env) (hw : SumWf e) (key : List Nat) : (getOut {} net e key).isPanic = false := by
  cases net
  · exact historyGet_noPanic e key
  · exact beaconGet_noPanic e hw key
  · exact stateGet_noPanic e key

/-- the ideal `Put` of summaries keeps the invariant `Get` relies on: a stored value carries its 8-byte epoch -/
theorem sumPut_wf (e : Env) (hw : SumWf e) (body content : List Nat) :
    SumWf { e with sum := (sumPut {} e body content).2 } := by
  intro pre n hs
  simp only at hs
  unfold sumPut at hs
  by_cases hb : body.length = 8
  · have htake : ((body ++ content).take 8).length = 8 := by simp [List.length_take, hb]
    simp only [hb, ne_eq, not_true_eq_false, decide_false, Bool.and_false, Bool.false_eq_true, if_false] at hs
    split at hs
    · simp only [Option.some.injEq, Prod.mk.injEq] at hs
      obtain ⟨rfl, rfl⟩ := hs
      exact ⟨by omega, htake⟩
    · rename_i pre0 n0 hs0
      split at hs
      · exact hw pre n hs
      · split at hs
        · exact hw pre n hs
        · simp only [Option.some.injEq, Prod.mk.injEq] at hs
          obtain ⟨rfl, rfl⟩ := hs
          exact ⟨by omega, htake⟩
        · exact hw pre n hs
  · simp only [ne_eq, hb, not_false_eq_true, decide_true, Bool.and_true, Bool.not_false, if_true] at hs
    exact hw pre n hs

theorem sumPut_noPanic (e : Env) (hw : SumWf e) (body content : List Nat) : (sumPut {} e body content).1.isPanic = false := by
  unfold sumPut
  by_cases hb : body.length = 8
  · simp only [hb, ne_eq, not_true_eq_false, decide_false, Bool.and_false, Bool.false_eq_true, if_false]
    split
    · rfl
    · rename_i pre n hs
      obtain ⟨hn, hp⟩ := hw pre n hs
      have hn' : ¬ n < 8 := by omega
      simp only [hn', if_false]
      have hne := reverseCompare_inb body pre (by omega)
      split
      · exact absurd ‹reverseCompare body pre = Cmp.oob› hne
      · rfl
      · rfl
  · simp [hb, Out.isPanic]

theorem beaconPut_noPanic (e : Env) (hw : SumWf e) (key content : List Nat) : (beaconPut {} e key content).isPanic = false := by
  unfold beaconPut
  split
  · exact guard1_ideal _ _ rfl
  · rfl
  · split <;> rfl
  · rfl
  · rfl
  · exact sumPut_noPanic e hw _ _
  · rfl

theorem statePut_noPanic (key : List Nat) (shape : StateShape) : (statePut {} key shape).isPanic = false := by
  unfold statePut
  split
  · exact guard1_ideal _ _ rfl
  · split
    · split
      · exact guard1_ideal _ _ rfl
      · split <;> rfl
    · split
      · exact guard1_ideal _ _ rfl
      · split <;> rfl
    · split <;> rfl
    · rfl
    · split <;> rfl

/-! ## the talk handler -/

theorem firstPanic_none (l : List Out) (h : ∀ o ∈ l, o.isPanic = false) : firstPanic l = none := by
  induction l with
  | nil => rfl
  | cons o rest ih =>
    have ho := h o (List.mem_cons_self ..)
    have hr := ih (fun x hx => h x (List.mem_cons_of_mem _ hx))
    cases o <;> simp_all [firstPanic, Out.isPanic]

theorem findContentOut_class (net : Net) (e : Env) (hw : SumWf e) (key : List Nat) :
    findContentOut {} net e key = .empty ∨ ∃ s, findContentOut {} net e key = .reply 5 (some s) := by
  have h := getOut_noPanic net e hw key
  unfold findContentOut
  split
  · rename_i s hs; rw [hs] at h; simp [Out.isPanic] at h
  · exact .inr ⟨2, rfl⟩
  · split
    · exact .inr ⟨1, rfl⟩
    · exact .inr ⟨0, rfl⟩
  · exact .inr ⟨1, rfl⟩
  · exact .inl rfl

theorem offerOut_class (net : Net) (e : Env) (hw : SumWf e) (ver : Option Nat) (keys : List (List Nat)) :
    offerOut {} net e ver keys = .empty ∨ offerOut {} net e ver keys = .reply 7 none := by
  unfold offerOut
  split
  · exact .inl rfl
  · have : firstPanic (keys.map (getOut {} net e)) = none := by
      apply firstPanic_none
      intro o ho
      obtain ⟨k, _, rfl⟩ := List.mem_map.mp ho
      exact getOut_noPanic net e hw k
    rw [this]
    exact .inr rfl

/-- the reply is empty or carries the response code of the request (PONG, NODES, CONTENT + selector, ACCEPT) -/
theorem handleTalk_class (net : Net) (e : Env) (hw : SumWf e) (ver : Option Nat) (msg : List Nat) :
    handleTalk {} net e ver msg = .empty ∨
    ∃ c s, handleTalk {} net e ver msg = .reply c s ∧ msg.head? = some (c - 1) ∧ (c = 1 ∨ c = 3 ∨ c = 5 ∨ c = 7) := by
  unfold handleTalk
  split
  · exact .inl rfl
  · unfold pingOut; split
    · exact .inl rfl
    · exact .inr ⟨1, none, rfl, rfl, by simp⟩
  · unfold findNodesOut; split
    · exact .inl rfl
    · exact .inr ⟨3, none, rfl, rfl, by simp⟩
  · unfold findContentMsg; split
    · exact .inl rfl
    · rename_i key _
      rcases findContentOut_class net e hw key with h | ⟨s, h⟩
      · exact .inl h
      · exact .inr ⟨5, some s, h, rfl, by simp⟩
  · unfold offerMsg; split
    · exact .inl rfl
    · rename_i keys _
      rcases offerOut_class net e hw ver keys with h | h
      · exact .inl h
      · exact .inr ⟨7, none, h, rfl, by simp⟩
  · exact .inl rfl

theorem handleTalk_noPanic (net : Net) (e : Env) (hw : SumWf e) (ver : Option Nat) (msg : List Nat) :
    (handleTalk {} net e ver msg).isPanic = false := by
  rcases handleTalk_class net e hw ver msg with h | ⟨c, s, h, _⟩ <;> rw [h] <;> rfl

/-- the dispatch is the one of `Fc.handleTalk` (model file FindContent.lean), instantiated with the four handlers -/
def toFc : Out → Fc.Out
  | .reply c (some s) => .reply [c, s]
  | .reply c none => .reply [c]
  | .panic s => .panic s
  | .empty => .empty
  | _ => .err

theorem handleTalk_is_Fc (q : Quirks) (hq : q.talkEmpty = false) (net : Net) (e : Env) (ver : Option Nat) (msg : List Nat) :
    toFc (handleTalk q net e ver msg) =
      Fc.handleTalk false (fun b => toFc (pingOut b)) (fun b => toFc (findNodesOut b))
        (fun b => toFc (findContentMsg q net e b)) (fun b => toFc (offerMsg q net e ver b)) msg := by
  unfold handleTalk
  split
  · simp [Fc.handleTalk, guard1, hq, toFc]
  · simp [Fc.handleTalk]
  · simp [Fc.handleTalk]
  · simp [Fc.handleTalk]
  · simp [Fc.handleTalk]
  · rename_i h0 h2 h4 h6
    unfold Fc.handleTalk
    split <;> simp_all [toFc]

/-! ## response processors, stream body, uTP handler -/

theorem processPong_class (resp : List Nat) : processPong resp = .err ∨ processPong resp = .handled := by
  unfold processPong
  split
  · exact .inl rfl
  · split
    · exact .inl rfl
    · split
      · exact .inl rfl
      · exact .inr rfl

theorem processNodes_class (resp : List Nat) : processNodes resp = .err ∨ processNodes resp = .ok := by
  unfold processNodes
  split
  · exact .inl rfl
  · split
    · exact .inl rfl
    · split
      · exact .inl rfl
      · exact .inr rfl

theorem processContent_class (resp : List Nat) : processContent {} resp = .err ∨ processContent {} resp = .ok := by
  unfold processContent
  split
  · exact .inl rfl
  · split
    · exact .inl rfl
    · exact .inl rfl
  · split
    · exact .inl rfl
    · split
      · split
        · exact .inl rfl
        · exact .inr rfl
      · split
        · exact .inl rfl
        · split
          · split
            · exact .inl rfl
            · exact .inr rfl
          · exact .inl rfl

theorem processOffer_class (version nkeys : Nat) (resp : List Nat) :
    processOffer version nkeys resp = .err ∨ processOffer version nkeys resp = .ok := by
  unfold processOffer
  split
  · exact .inl rfl
  · split
    · exact .inl rfl
    · split
      · exact .inl rfl
      · split
        · exact .inl rfl
        · exact .inr rfl

/-- accepted exactly when the stream splits into as many items as there are keys -/
theorem offeredContents_ok_iff (nkeys : Nat) (payload : List Nat) :
    offeredContents nkeys payload = .ok ↔ ∃ items, Fr.decContents payload = some items ∧ items.length = nkeys := by
  unfold offeredContents
  split
  · rename_i h; simp [h]
  · rename_i items h
    split
    · rename_i hne; simp [h]; exact hne
    · rename_i heq
      simp only [ne_eq, Decidable.not_not] at heq
      simp [h, heq]

theorem offeredContents_class (nkeys : Nat) (payload : List Nat) :
    offeredContents nkeys payload = .err ∨ offeredContents nkeys payload = .ok := by
  unfold offeredContents
  split
  · exact .inl rfl
  · split
    · exact .inl rfl
    · exact .inr rfl

theorem utpTalk_returns (queued cap : Nat) (h : queued < cap) : utpTalk queued cap = some .empty := by
  simp [utpTalk, h]

/-! ## trie traversal -/

theorem traverseQ_asIs (n : Tr.Node) (path : List Nat) : (traverseQ true true n path).erase = Tr.traverse n path := by
  fun_induction traverseQ true true n path
  all_goals (rw [Tr.traverse.eq_def])
  all_goals (try (simp_all [TOut.erase]; done))
  all_goals (try (simp only []; split <;> simp_all [TOut.erase]; done))
  case case10 key val path last hg hne ref rest hm ih =>
    simp only []
    split
    · simp_all
    · rename_i last' hg'
      have hl : last' = last := by rw [hg] at hg'; exact (Option.some.inj hg').symm
      subst hl
      simp only [hne, if_false]
      split
      · rename_i ref' rest' hm'
        rw [hm] at hm'; cases hm'; exact ih
      · rename_i hm'; rw [hm] at hm'; cases hm'
      · rename_i hm'; rw [hm] at hm'; cases hm'
  case case11 key val path last hg hne hm =>
    simp only []
    split
    · simp_all
    · rename_i last' hg'
      have hl : last' = last := by rw [hg] at hg'; exact (Option.some.inj hg').symm
      subst hl
      simp only [hne, if_false]
      split
      · rename_i ref' rest' hm'; rw [hm] at hm'; cases hm'
      · rfl
      · rename_i hm'; rw [hm] at hm'; cases hm'
  case case12 key val path last hg hne hm _ =>
    simp only []
    split
    · simp_all
    · rename_i last' hg'
      have hl : last' = last := by rw [hg] at hg'; exact (Option.some.inj hg').symm
      subst hl
      simp only [hne, if_false]
      split
      · rename_i ref' rest' hm'; rw [hm] at hm'; cases hm'
      · rename_i hm'; rw [hm] at hm'; cases hm'
      · rfl

theorem mem_of_getElem? {α : Type} (l : List α) (i : Nat) (a : α) (h : l[i]? = some a) : a ∈ l := by
  obtain ⟨hi, rfl⟩ := List.getElem?_eq_some_iff.mp h
  exact List.getElem_mem hi

theorem traverseQ_noPanic' (qk qp : Bool) (hk : qk = false) (hq : qp = false) (n : Tr.Node) (path : List Nat)
    (hw : WfNode n) (hp : ∀ x ∈ path, x < 17) : ∀ k, traverseQ qk qp n path ≠ .panic k := by
  fun_induction traverseQ qk qp n path
  case case2 cs p ps hnone =>
    rw [WfNode] at hw
    have hp17 : p < 17 := hp p (List.mem_cons_self ..)
    have : p < cs.length := by omega
    simp [List.getElem?_eq_getElem this] at hnone
  case case3 cs p ps c hsome ih =>
    rw [WfNode] at hw
    exact ih (hw.2 c (mem_of_getElem? cs p c hsome)) (fun x hx => hp x (List.mem_cons_of_mem _ hx))
  case case4 key val path hg hqk => simp [hk] at hqk
  case case9 key val path hd heq hnv hg =>
    rw [WfNode] at hw
    obtain ⟨v, rfl⟩ := hw.1 hg
    exact absurd rfl (hnv v)
  case case10 key val path last hg hl r rest hm ih =>
    rw [WfNode] at hw
    have hsplit := (Tr.matchKey_ok key path r rest hm).1
    exact ih hw.2 (fun x hx => hp x (by rw [hsplit]; exact List.mem_append_right _ hx))
  case case12 key val path last hg hl hm hqp => simp [hq] at hqp
  all_goals (intro k; simp)

/-- ideal traversal of a node the decoder can produce, along nibbles (0..16), never panics -/
theorem traverseQ_noPanic (n : Tr.Node) (path : List Nat) (hw : WfNode n) (hp : ∀ x ∈ path, x < 17) :
    ∀ k, traverseQ false false n path ≠ .panic k := traverseQ_noPanic' false false rfl rfl n path hw hp

/-! ## validators -/

theorem historyValidate_noPanic (key : List Nat) (shape : HistShape) : (historyValidate {} key shape).isPanic = false := by
  unfold historyValidate
  split
  · exact guard1_ideal _ _ rfl
  · split
    · rfl
    · split
      · rfl
      · split
        · rfl
        · exact guard1_ideal _ _ rfl
    · split
      · split <;> rfl
      · split
        · exact guard1_ideal _ _ rfl
        · split <;> rfl
    · split <;> rfl

theorem stateValidate_noPanic (key : List Nat) (shape : StShape)
    (hw : ∀ n path l h, shape = .acct2 (some n) path l h → WfNode n ∧ ∀ x ∈ path, x < 17) :
    (stateValidate {} key shape).isPanic = false := by
  cases key with
  | nil => exact guard1_ideal _ _ rfl
  | cons t rest =>
    cases shape with
    | vec => rfl
    | raw => simp only [stateValidate]; split <;> rfl
    | acct2 n1 path link nh =>
      cases n1 with
      | none => rfl
      | some n =>
        obtain ⟨hwf, hpth⟩ := hw n path link nh rfl
        have hnp := traverseQ_noPanic n path hwf hpth
        simp only [stateValidate]
        split
        · rename_i k hk
          exact absurd hk (hnp k)
        · rfl
        · split
          · rfl
          · split
            · rfl
            · split <;> rfl

theorem beaconValidate_noPanic (key : List Nat) : (beaconValidate {} key).isPanic = false := by
  unfold beaconValidate
  split
  · exact guard1_ideal _ _ rfl
  · split <;> rfl

/-! ## the update-range loop is bounded by what is stored -/

theorem filter_succ_lt (l : List (Nat × Nat)) (p : Nat) (h : ∃ x ∈ l, x.1 = p) :
    (l.filter (fun x => decide (p + 1 ≤ x.1))).length + 1 ≤ (l.filter (fun x => decide (p ≤ x.1))).length := by
  induction l with
  | nil => obtain ⟨x, hx, _⟩ := h; cases hx
  | cons a rest ih =>
    obtain ⟨x, hx, hxp⟩ := h
    have hmono : (rest.filter (fun x => decide (p + 1 ≤ x.1))).length ≤ (rest.filter (fun x => decide (p ≤ x.1))).length := by
      clear ih hx
      induction rest with
      | nil => simp
      | cons b r ihr =>
        simp only [List.filter_cons]
        by_cases h1 : p + 1 ≤ b.1
        · have h2 : p ≤ b.1 := by omega
          simp [h1, h2]; exact ihr
        · by_cases h2 : p ≤ b.1
          · simp [h1, h2]; omega
          · simp [h1, h2]; exact ihr
    simp only [List.filter_cons]
    rcases List.mem_cons.mp hx with rfl | hx'
    · have h1 : ¬ (p + 1 ≤ x.1) := by omega
      have h2 : p ≤ x.1 := by omega
      simp [h1, h2]; omega
    · have := ih ⟨x, hx', hxp⟩
      by_cases h1 : p + 1 ≤ a.1
      · have h2 : p ≤ a.1 := by omega
        simp [h1, h2]; omega
      · by_cases h2 : p ≤ a.1
        · simp [h1, h2]; omega
        · simp [h1, h2]; omega

theorem updatesSteps_le_filter (periods : List (Nat × Nat)) (endp p : Nat) :
    updatesSteps periods endp p ≤ (periods.filter (fun x => decide (p ≤ x.1))).length + 1 := by
  fun_induction updatesSteps periods endp p with
  | case1 p hlt hnone => omega
  | case2 p hlt x hsome ih =>
    have hx := List.find?_some hsome
    have hm := List.mem_of_find?_eq_some hsome
    have := filter_succ_lt periods p ⟨x, hm, by simpa using hx⟩
    omega
  | case3 p hge => omega

/-- however large the peer-chosen count: at most one look-up per stored period, plus the one that misses -/
theorem updatesSteps_le (periods : List (Nat × Nat)) (endp p : Nat) :
    updatesSteps periods endp p ≤ periods.length + 1 := by
  have := updatesSteps_le_filter periods endp p
  have := List.length_filter_le (fun x : Nat × Nat => decide (p ≤ x.1)) periods
  omega

end Dp

namespace Dp

/-! ## the findings: with the switch of a site on, a concrete peer input reaches `panic` there -/

theorem SumWf_empty : SumWf {} := by intro pre n h; cases h

/-- a store holding summaries of epoch 5 -/
def envSum : Env := { sum := some ([5, 0, 0, 0, 0, 0, 0, 0], 17) }

theorem SumWf_envSum : SumWf envSum := by
  intro pre n h
  simp only [envSum, Option.some.injEq, Prod.mk.injEq] at h
  obtain ⟨rfl, rfl⟩ := h
  exact ⟨by omega, rfl⟩

/-- DESIGN §6 row 1: an empty TALKREQ -/
theorem quirk_talk_empty (net : Net) (e : Env) (ver : Option Nat) :
    handleTalk { talkEmpty := true } net e ver [] = .panic "portalwire.PortalProtocol.handleTalkRequest:idx" := rfl

/-- row 2: a one-byte CONTENT response -/
theorem quirk_content_selector : processContent { contentSel := true } [5] = .panic "portalwire.PortalProtocol.processContent:idx" := rfl

/-- row 3 (history adapter): FINDCONTENT and OFFER carrying an empty content key -/
theorem quirk_history_empty_key :
    handleTalk { histKey := true } .history {} (some 1) [4, 4, 0, 0, 0] = .panic "history.isEphemeralOfferType:idx" ∧
    handleTalk { histKey := true } .history {} (some 0) [6, 4, 0, 0, 0, 4, 0, 0, 0] = .panic "history.isEphemeralOfferType:idx" := by
  decide

/-- row 3 (beacon adapter) -/
theorem quirk_beacon_empty_key :
    handleTalk { beaconGetKey := true } .beacon {} (some 1) [4, 4, 0, 0, 0] = .panic "beacon.Storage.Get:idx" ∧
    beaconPut { beaconPutKey := true } {} [] [] = .panic "beacon.Storage.Put:idx" := by
  decide

/-- row 3 (state adapter `Put`, the three validators) -/
theorem quirk_empty_key_put_validate :
    statePut { stateKey := true } [] .raw = .panic "state.Storage.Put:idx" ∧
    historyValidate { histVal := true } [] .raw = .panic "history.HistoryValidator.ValidateContent:idx" ∧
    stateValidate { stateVal := true } [] .raw = .panic "state.StateValidator.ValidateContent:idx" ∧
    beaconValidate { beaconVal := true } [] = .panic "beacon.BeaconValidator.ValidateContent:idx" := by
  decide

/-- row 4: once summaries are stored, FINDCONTENT for the one-byte key `0x14`; `Put` with a long key -/
theorem quirk_beacon_summaries :
    handleTalk { beaconSumGet := true } .beacon envSum (some 1) [4, 4, 0, 0, 0, 0x14] = .panic "beacon.reverseCompare:idx" ∧
    beaconPut { beaconSumPut := true } envSum [0x14, 1, 2, 3, 4, 5, 6, 7, 8, 9] [] = .panic "beacon.reverseCompare:idx" ∧
    -- a short key is stored as a short value, on which both `Get` and the next `Put` slice out of range
    (sumPut { beaconSumPut := true } {} [1] []).2 = some ([1], 1) ∧
    beaconGet { beaconSumGet := true } { sum := some ([1], 1) } [0x14, 0, 0, 0, 0, 0, 0, 0, 0] = .panic "beacon.Storage.Get:slice" ∧
    beaconPut { beaconSumPut := true } { sum := some ([1], 1) } [0x14, 0, 0, 0, 0, 0, 0, 0, 0] [] = .panic "beacon.Storage.Put:slice" := by
  decide

/-- row 5: an empty proof list -/
theorem quirk_state_empty_proof :
    statePut { stateProof := true } [0x20] (.acc 0 false) = .panic "state.Storage.putAccountTrieNode:idxneg" ∧
    statePut { stateProof := true } [0x21] (.con 0 false) = .panic "state.Storage.putContractStorageTrieNode:idxneg" := by
  decide

/-- row 6: a slot beyond the 758 historical roots behind a consistent execution-block branch -/
theorem quirk_roots_index :
    historyValidate { rootsIndex := true } [0] (.roots true (758 * 8192) 758) =
      .panic "validation.HeaderValidator.validateMergeToCapellaHeader:idx" := by
  decide

/-- row 7: a Shanghai-format body under a header without withdrawals root -/
theorem quirk_withdrawals_nil :
    historyValidate { withdrawalsNil := true } [1] (.body false true false) = .panic "history.validateBlockBody:nil" := by
  decide

theorem quirk_trie_path_aux : traverseQ false true (.short [1, 2] (.hash [9])) [1] = .panic "idx" := by
  rw [traverseQ.eq_def]; simp [Tr.matchKey]
  split
  · rename_i h; simp at h
  · rename_i last h
    have : last = 2 := by simp at h; exact h.symm
    subst this; simp

/-- row 8: a short node with empty key (`c2 80 80`); an extension key longer than the path -/
theorem quirk_trie :
    traverseQ true false (.short [] .empty) [1] = .panic "idxneg" ∧
    traverseQ false true (.short [1, 2] (.hash [9])) [1] = .panic "idx" ∧
    stateValidate { triePath := true } [0x20] (.acct2 (some (.short [1, 2] (.hash [9]))) [1] true true) =
      .panic "trie.TraverseTrieNode:idx" := by
  refine ⟨?_, quirk_trie_path_aux, ?_⟩
  · rw [traverseQ.eq_def]; simp
  · simp [stateValidate, quirk_trie_path_aux]

/-- non-vacuity: the ideal model answers these very inputs with an empty reply / a not-found reply / an error -/
theorem ideal_on_witnesses :
    handleTalk {} .history {} (some 1) [] = .empty ∧
    handleTalk {} .history {} (some 1) [4, 4, 0, 0, 0] = .reply 5 (some 2) ∧
    handleTalk {} .beacon envSum (some 1) [4, 4, 0, 0, 0, 0x14] = .reply 5 (some 2) ∧
    handleTalk {} .beacon envSum (some 1) [4, 4, 0, 0, 0, 0x14, 4, 0, 0, 0, 0, 0, 0, 0] = .reply 5 (some 1) ∧
    handleTalk {} .beacon envSum (some 1) [4, 4, 0, 0, 0, 0x14, 6, 0, 0, 0, 0, 0, 0, 0] = .reply 5 (some 2) ∧
    processContent {} [5] = .err := by
  decide

end Dp

namespace Dp

theorem handleTalk_unknown_code (net : Net) (e : Env) (ver : Option Nat) (c : Nat) (body : List Nat)
    (h : c ≠ 0 ∧ c ≠ 2 ∧ c ≠ 4 ∧ c ≠ 6) : handleTalk {} net e ver (c :: body) = .empty := by
  obtain ⟨h0, h2, h4, h6⟩ := h
  unfold handleTalk
  split <;> simp_all

theorem processors_short_is_error :
    processPong [] = .err ∧ processNodes [] = .err ∧ processContent {} [] = .err ∧ processOffer 1 2 [] = .err ∧
    (∀ c, processContent {} [c] = .err) ∧ (∀ c, c ≠ 5 → ∀ b, processContent {} (c :: b) = .err) := by
  refine ⟨rfl, rfl, rfl, rfl, ?_, ?_⟩
  · intro c; unfold processContent; split <;> simp_all [guard1]
  · intro c hc b
    unfold processContent
    split
    · rfl
    · simp_all
    · simp_all

end Dp
