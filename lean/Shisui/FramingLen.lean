import Shisui.Framing
/-! C15: the size of a joined stream, from the lengths of its items alone (what the driver uses for items too large to spell
    out: 2^28 bytes and more, where the length prefix takes its fifth byte). -/
namespace Fr

/-- bytes of the LEB128 form of `v` -/
def lebLen (v : Nat) : Nat := (enc v).length

/-- size of the joined stream of items with these lengths -/
def streamLen : List Nat → Nat
  | [] => 0
  | n :: ns => lebLen n + n + streamLen ns

theorem encSingle_length (x : List Nat) : (encSingle x).length = lebLen x.length + x.length := by
  simp [encSingle, lebLen]

/-- the joined stream is exactly as long as its prefixes and items together -/
theorem encContents_length (xs : List (List Nat)) : (encContents xs).length = streamLen (xs.map List.length) := by
  induction xs with
  | nil => simp [encContents, streamLen]
  | cons x xs ih => simp [encContents, streamLen, encSingle_length, ih]

theorem lebLen_small (v : Nat) (h : v < 128) : lebLen v = 1 := by
  unfold lebLen; rw [enc]; simp [h]

theorem lebLen_step (v : Nat) (h : ¬ v < 128) : lebLen v = 1 + lebLen (v / 128) := by
  unfold lebLen; rw [enc]; simp [h]; omega

/-- a length of 2^28 or more (below 2^35) takes five prefix bytes; below 2^28 it takes at most four -/
theorem lebLen_five (v : Nat) (h1 : 2 ^ 28 ≤ v) (h2 : v < 2 ^ 35) : lebLen v = 5 := by
  have a1 : ¬ v < 128 := by omega
  have a2 : ¬ v / 128 < 128 := by omega
  have a3 : ¬ v / 128 / 128 < 128 := by omega
  have a4 : ¬ v / 128 / 128 / 128 < 128 := by omega
  have a5 : v / 128 / 128 / 128 / 128 < 128 := by omega
  rw [lebLen_step v a1, lebLen_step _ a2, lebLen_step _ a3, lebLen_step _ a4, lebLen_small _ a5]

theorem lebLen_le_four (v : Nat) (h : v < 2 ^ 28) : lebLen v ≤ 4 := by
  by_cases a1 : v < 128
  · rw [lebLen_small v a1]; omega
  · rw [lebLen_step v a1]
    by_cases a2 : v / 128 < 128
    · rw [lebLen_small _ a2]; omega
    · rw [lebLen_step _ a2]
      by_cases a3 : v / 128 / 128 < 128
      · rw [lebLen_small _ a3]; omega
      · rw [lebLen_step _ a3]
        have a4 : v / 128 / 128 / 128 < 128 := by omega
        rw [lebLen_small _ a4]; omega

#print axioms encContents_length
#print axioms lebLen_five
end Fr
