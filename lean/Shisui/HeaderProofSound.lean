import Shisui.HeaderProof
/-! Theorems about the header-proof model `Hp` for an ARBITRARY hash `H`, arbitrary tables, headers, positions:
    completeness (honest proofs verify), soundness in binding form (accept ⇒ committed leaf, or an explicit
    collision / leaf pre-image is exhibited), uniqueness of the accepted proof, out-of-range behaviour of the
    ideal model and of the model with the code's unchecked accesses, era dispatch. Core Lean only. -/
namespace Hp
open Mk

variable (H : Hash → Hash → Hash)

/-! ## completeness -/

/-- pre-merge: the proof the model prover builds for record `n mod 8192` of an epoch whose root is the trusted
    entry `n / 8192` verifies -/
theorem complete_premerge (q : Quirks) (t : Tables) (recs : List (Hash × Hash)) (n : Nat) (hash td : Hash)
    (htab : t.epochs[n / epochSize]? = some (epochRoot H recs))
    (hrec : recs[n % epochSize]? = some (hash, td)) :
    ∃ sib, proveEpoch H recs n = some sib ∧ sib.length = 15 ∧ validatePre H q t n hash (some sib) = .ok := by
  have hnode := epochTree_nodeAt recs n
  have hra : recAt recs (n % epochSize) = (hash, td) := by simp [recAt, hrec]
  rw [hra] at hnode
  obtain ⟨br, hbr, hlen, hfold⟩ := honest_verifies H 15 (epochTree recs) (.leaf hash) (preIndex n) hnode
  refine ⟨br, ?_, hlen, ?_⟩
  · simp [proveEpoch, hbr]
  · rw [validatePre_ok_iff]
    exact ⟨epochRoot H recs, br, htab, rfl, hlen, by simpa [root, epochRoot] using hfold⟩

/-- merge … Capella: for every batch tree `T` under the trusted root of the slot's batch that commits, at the slot's
    position (depth 14, index 2·8192 + slot mod 8192), to a block tree `B`, and every `B` that commits to the header
    hash at gindex 3228: the proofs built by the model prover verify -/
theorem complete_bellatrix (q : Quirks) (t : Tables) (T B tb te : Tree) (slot : Nat) (hash : Hash)
    (htab : t.roots[slot / epochSize]? = some (root H T))
    (hT : nodeAt T 14 (bellIndex slot) = some tb) (hTB : root H tb = root H B)
    (hB : nodeAt B 11 gindexBellatrix = some te) (hte : root H te = hash) :
    ∃ bp ep, prove H T 14 (bellIndex slot) = some (bp, root H B) ∧ prove H B 11 gindexBellatrix = some (ep, hash) ∧
      bp.length = 14 ∧ ep.length = 11 ∧ validateBell H q t hash (mkPM bp (root H B) ep slot) = .ok := by
  obtain ⟨bp, hbp, hbl, hbf⟩ := honest_verifies H 14 T tb (bellIndex slot) hT
  obtain ⟨ep, hep, hel, hef⟩ := honest_verifies H 11 B te gindexBellatrix hB
  rw [hTB] at hbp hbf
  rw [hte] at hep hef
  refine ⟨bp, ep, hbp, hep, hbl, hel, ?_⟩
  rw [validateBell_ok_iff]
  refine ⟨hef, root H T, htab, ?_⟩
  show fold H (root H B) (List.take 14 bp) (bellIndex slot) = root H T
  rw [List.take_of_length_le (Nat.le_of_eq hbl)]
  exact hbf

/-- Capella / Deneb (`g`, `de` = 3228, 11 resp. 6444, 12): the same against the block-summary root the provider
    returns for the slot (depth 13, index 8192 + slot mod 8192) -/
theorem complete_summaries (g de : Nat) (t : Tables) (T B tb te : Tree) (slot : Nat) (hash : Hash)
    (htab : lookupSummary t slot = some (root H T))
    (hT : nodeAt T 13 (summIndex slot) = some tb) (hTB : root H tb = root H B)
    (hB : nodeAt B de g = some te) (hte : root H te = hash) :
    ∃ bp ep, prove H T 13 (summIndex slot) = some (bp, root H B) ∧ prove H B de g = some (ep, hash) ∧
      bp.length = 13 ∧ ep.length = de ∧ validateSumm H g t hash (mkPM bp (root H B) ep slot) = .ok := by
  obtain ⟨bp, hbp, hbl, hbf⟩ := honest_verifies H 13 T tb (summIndex slot) hT
  obtain ⟨ep, hep, hel, hef⟩ := honest_verifies H de B te g hB
  rw [hTB] at hbp hbf
  rw [hte] at hep hef
  refine ⟨bp, ep, hbp, hep, hbl, hel, ?_⟩
  rw [validateSumm_ok_iff]
  refine ⟨hef, root H T, htab, ?_⟩
  show fold H (root H B) (List.take 13 bp) (summIndex slot) = root H T
  rw [List.take_of_length_le (Nat.le_of_eq hbl)]
  exact hbf

/-! ## soundness, binding form: no injectivity assumption on `H` -/

/-- pre-merge: accepted ⇒ under EVERY opening `T` of the trusted epoch root the node at depth 15 along the
    validator's index hashes to the header hash — or a collision / a leaf pre-image is exhibited -/
theorem sound_premerge (q : Quirks) (t : Tables) (n : Nat) (hash : Hash) (sib : Option (List Hash))
    (hok : validatePre H q t n hash sib = .ok) (T : Tree)
    (hT : t.epochs[n / epochSize]? = some (root H T)) :
    (∃ tn, nodeAt T 15 (preIndex n) = some tn ∧ root H tn = hash) ∨ Collision H ∨ LeafPre H T := by
  obtain ⟨r, s, he, _, hl, hf⟩ := (validatePre_ok_iff H q t n hash sib).1 hok
  rw [hT] at he
  cases he
  have := sound H 15 T hash s (preIndex n) hl hf
  rw [hl] at this
  exact this

/-- pre-merge, for the epoch accumulator itself: accepted ⇒ the header hash IS the block hash recorded at
    `n mod 8192` (zero past the end of the chain) -/
theorem sound_premerge_records (q : Quirks) (t : Tables) (n : Nat) (hash : Hash) (sib : Option (List Hash))
    (recs : List (Hash × Hash))
    (hok : validatePre H q t n hash sib = .ok)
    (hT : t.epochs[n / epochSize]? = some (epochRoot H recs)) :
    (recAt recs (n % epochSize)).1 = hash ∨ Collision H ∨ LeafPre H (epochTree recs) := by
  rcases sound_premerge H q t n hash sib hok (epochTree recs) hT with ⟨tn, h1, h2⟩ | h | h
  · left
    rw [epochTree_nodeAt] at h1
    cases h1
    simpa [root] using h2
  · right; left; exact h
  · right; right; exact h

/-- merge … Capella: accepted ⇒ (a) under every opening `T` of the trusted historical root of batch `slot / 8192`
    the node at the slot's position hashes to the proof's beacon block root, and (b) under every opening `B` of that
    beacon block root the node at gindex 3228 hashes to the header hash — or a collision / leaf pre-image is exhibited -/
theorem sound_bellatrix (q : Quirks) (t : Tables) (hash : Hash) (p : PM)
    (hok : validateBell H q t hash p = .ok) (hbl : p.bproof.length = 14) (T B : Tree)
    (hT : t.roots[p.slot / epochSize]? = some (root H T)) (hB : root H B = p.broot) :
    ((∃ tb, nodeAt T 14 (bellIndex p.slot) = some tb ∧ root H tb = p.broot) ∨ Collision H ∨ LeafPre H T) ∧
    ((∃ te, nodeAt B p.eproof.length gindexBellatrix = some te ∧ root H te = hash) ∨ Collision H ∨ LeafPre H B) := by
  obtain ⟨h1, r, hr, h2⟩ := (validateBell_ok_iff H q t hash p).1 hok
  rw [hT] at hr
  cases hr
  have htl : (p.bproof.take 14).length = 14 := by rw [List.length_take, hbl]; rfl
  constructor
  · have := sound H 14 T p.broot (p.bproof.take 14) (bellIndex p.slot) htl h2
    rw [htl] at this
    exact this
  · exact sound H p.eproof.length B hash p.eproof gindexBellatrix rfl (h1.trans hB.symm)

/-- Capella / Deneb: the same against the summary the provider returned -/
theorem sound_summaries (g : Nat) (t : Tables) (hash : Hash) (p : PM)
    (hok : validateSumm H g t hash p = .ok) (hbl : p.bproof.length = 13) (T B : Tree)
    (hT : lookupSummary t p.slot = some (root H T)) (hB : root H B = p.broot) :
    ((∃ tb, nodeAt T 13 (summIndex p.slot) = some tb ∧ root H tb = p.broot) ∨ Collision H ∨ LeafPre H T) ∧
    ((∃ te, nodeAt B p.eproof.length g = some te ∧ root H te = hash) ∨ Collision H ∨ LeafPre H B) := by
  obtain ⟨h1, r, hr, h2⟩ := (validateSumm_ok_iff H g t hash p).1 hok
  rw [hT] at hr
  cases hr
  have htl : (p.bproof.take 13).length = 13 := by rw [List.length_take, hbl]; rfl
  constructor
  · have := sound H 13 T p.broot (p.bproof.take 13) (summIndex p.slot) htl h2
    rw [htl] at this
    exact this
  · exact sound H p.eproof.length B hash p.eproof g rfl (h1.trans hB.symm)

/-! ## uniqueness: at one position at most one (header hash, proof) is accepted, or a collision is exhibited -/

theorem unique_premerge (q q' : Quirks) (t : Tables) (n : Nat) (hash hash' : Hash) (s s' : List Hash)
    (h1 : validatePre H q t n hash (some s) = .ok) (h2 : validatePre H q' t n hash' (some s') = .ok) :
    (hash = hash' ∧ s = s') ∨ Collision H := by
  obtain ⟨r, x, he, hx, hl, hf⟩ := (validatePre_ok_iff H q t n hash (some s)).1 h1
  obtain ⟨r', x', he', hx', hl', hf'⟩ := (validatePre_ok_iff H q' t n hash' (some s')).1 h2
  cases hx; cases hx'
  rw [he] at he'
  cases he'
  exact fold_inj H s s' hash hash' (preIndex n) (hl.trans hl'.symm) (hf.trans hf'.symm)

theorem unique_bellatrix (q q' : Quirks) (t : Tables) (hash hash' : Hash) (p p' : PM)
    (hs : p.slot = p'.slot) (hb : p.bproof.length = 14) (hb' : p'.bproof.length = 14)
    (he : p.eproof.length = p'.eproof.length)
    (h1 : validateBell H q t hash p = .ok) (h2 : validateBell H q' t hash' p' = .ok) :
    (hash = hash' ∧ p.broot = p'.broot ∧ p.bproof = p'.bproof ∧ p.eproof = p'.eproof) ∨ Collision H := by
  obtain ⟨e1, r, hr, f1⟩ := (validateBell_ok_iff H q t hash p).1 h1
  obtain ⟨e2, r', hr', f2⟩ := (validateBell_ok_iff H q' t hash' p').1 h2
  rw [← hs, hr] at hr'
  cases hr'
  rw [List.take_of_length_le (Nat.le_of_eq hb)] at f1
  rw [List.take_of_length_le (Nat.le_of_eq hb'), ← hs] at f2
  rcases fold_inj H p.bproof p'.bproof p.broot p'.broot (bellIndex p.slot) (hb.trans hb'.symm) (f1.trans f2.symm) with ⟨hbr, hbp⟩ | hc
  · rcases fold_inj H p.eproof p'.eproof hash hash' gindexBellatrix he (e1.trans (hbr.trans e2.symm)) with ⟨hh, hep⟩ | hc
    · left; exact ⟨hh, hbr, hbp, hep⟩
    · right; exact hc
  · right; exact hc

theorem unique_summaries (g : Nat) (t : Tables) (hash hash' : Hash) (p p' : PM)
    (hs : p.slot = p'.slot) (hb : p.bproof.length = 13) (hb' : p'.bproof.length = 13)
    (he : p.eproof.length = p'.eproof.length)
    (h1 : validateSumm H g t hash p = .ok) (h2 : validateSumm H g t hash' p' = .ok) :
    (hash = hash' ∧ p.broot = p'.broot ∧ p.bproof = p'.bproof ∧ p.eproof = p'.eproof) ∨ Collision H := by
  obtain ⟨e1, r, hr, f1⟩ := (validateSumm_ok_iff H g t hash p).1 h1
  obtain ⟨e2, r', hr', f2⟩ := (validateSumm_ok_iff H g t hash' p').1 h2
  rw [← hs, hr] at hr'
  cases hr'
  rw [List.take_of_length_le (Nat.le_of_eq hb)] at f1
  rw [List.take_of_length_le (Nat.le_of_eq hb'), ← hs] at f2
  rcases fold_inj H p.bproof p'.bproof p.broot p'.broot (summIndex p.slot) (hb.trans hb'.symm) (f1.trans f2.symm) with ⟨hbr, hbp⟩ | hc
  · rcases fold_inj H p.eproof p'.eproof hash hash' g he (e1.trans (hbr.trans e2.symm)) with ⟨hh, hep⟩ | hc
    · left; exact ⟨hh, hbr, hbp, hep⟩
    · right; exact hc
  · right; exact hc

/-! ## out-of-range positions -/

theorem oor_premerge_ideal (t : Tables) (n : Nat) (hash : Hash) (sib : Option (List Hash))
    (h : t.epochs.length ≤ n / epochSize) : validatePre H ideal t n hash sib = .errOther := by
  unfold validatePre
  rw [List.getElem?_eq_none h]
  rfl

theorem oor_bellatrix_ideal (t : Tables) (hash : Hash) (p : PM)
    (h : t.roots.length ≤ p.slot / epochSize) : (validateBell H ideal t hash p).isErr = true := by
  unfold validateBell
  rw [List.getElem?_eq_none h]
  by_cases h1 : fold H hash p.eproof gindexBellatrix = p.broot
  · simp [h1, oorOut, ideal, Out.isErr]
  · simp [h1, Out.isErr]

theorem oor_summaries (g : Nat) (t : Tables) (hash : Hash) (p : PM)
    (hc : t.summaries.length ≤ summaryIndex p.slot)
    (ho : match t.oracle with | .answers l => l.length ≤ summaryIndex p.slot | _ => True) :
    (validateSumm H g t hash p).isErr = true := by
  unfold validateSumm
  rw [lookupSummary_none_of_short t p.slot hc ho]
  by_cases h1 : fold H hash p.eproof g = p.broot
  · simp [h1, Out.isErr]
  · simp [h1, Out.isErr]

/-- the code as it is: a slot whose batch lies beyond `historical_roots` PANICS as soon as the execution branch
    folds to the claimed beacon block root — which the sender chooses freely -/
theorem roots_unchecked_panics (t : Tables) (hash : Hash) (p : PM)
    (h1 : fold H hash p.eproof gindexBellatrix = p.broot)
    (h : t.roots.length ≤ p.slot / epochSize) : validateBell H asIs t hash p = .panic := by
  unfold validateBell
  rw [List.getElem?_eq_none h]
  simp [h1, oorOut, asIs]

theorem epochs_unchecked_panics (t : Tables) (n : Nat) (hash : Hash) (sib : Option (List Hash))
    (h : t.epochs.length ≤ n / epochSize) : validatePre H asIs t n hash sib = .panic := by
  unfold validatePre
  rw [List.getElem?_eq_none h]
  rfl

theorem validatePre_ideal_no_panic (t : Tables) (n : Nat) (hash : Hash) (sib : Option (List Hash)) :
    validatePre H ideal t n hash sib ≠ .panic := by
  unfold validatePre
  cases t.epochs[n / epochSize]? with
  | none => simp [oorOut, ideal]
  | some r =>
    cases sib with
    | none => simp
    | some s =>
      simp only [checkPre]
      split
      · split <;> simp
      · simp

theorem validateBell_ideal_no_panic (t : Tables) (hash : Hash) (p : PM) :
    validateBell H ideal t hash p ≠ .panic := by
  unfold validateBell
  split
  · cases t.roots[p.slot / epochSize]? with
    | none => simp [oorOut, ideal]
    | some r => simp only []; split <;> simp
  · simp

theorem validateSumm_no_panic (g : Nat) (t : Tables) (hash : Hash) (p : PM) :
    validateSumm H g t hash p ≠ .panic := by
  unfold validateSumm
  split
  · cases lookupSummary t p.slot with
    | none => simp
    | some r => simp only []; split <;> simp
  · simp

/-- the ideal model never panics, on any input -/
theorem ideal_never_panics (t : Tables) (n : Nat) (hash : Hash) (proof : List Nat) :
    validate H ideal t n hash proof ≠ .panic := by
  unfold validate
  cases eraOf n with
  | preMerge => exact validatePre_ideal_no_panic H t n hash _
  | bellatrix =>
    cases decodePM 14 11 proof with
    | none => simp
    | some p => exact validateBell_ideal_no_panic H t hash p
  | capella =>
    cases decodePM 13 11 proof with
    | none => simp
    | some p => exact validateSumm_no_panic H _ t hash p
  | deneb =>
    cases decodePM 13 12 proof with
    | none => simp
    | some p => exact validateSumm_no_panic H _ t hash p

/-! ## era dispatch -/

theorem eraOf_pre (n : Nat) (h : n < mergeBlock) : eraOf n = .preMerge := by simp [eraOf, h]
theorem eraOf_bell (n : Nat) (h1 : mergeBlock ≤ n) (h2 : n < shanghaiBlock) : eraOf n = .bellatrix := by
  simp [eraOf, Nat.not_lt.2 h1, h2]
theorem eraOf_cap (n : Nat) (h1 : shanghaiBlock ≤ n) (h2 : n < cancunBlock) : eraOf n = .capella := by
  have : mergeBlock ≤ n := Nat.le_trans (by decide) h1
  simp [eraOf, Nat.not_lt.2 this, Nat.not_lt.2 h1, h2]
theorem eraOf_deneb (n : Nat) (h1 : cancunBlock ≤ n) : eraOf n = .deneb := by
  have h2 : shanghaiBlock ≤ n := Nat.le_trans (by decide) h1
  have h3 : mergeBlock ≤ n := Nat.le_trans (by decide) h2
  simp [eraOf, Nat.not_lt.2 h3, Nat.not_lt.2 h2, Nat.not_lt.2 h1]

/-- size of the proof bytes each era accepts -/
def eraSize : Era → Nat
  | .preMerge => 32 * 15
  | .bellatrix => 840
  | .capella => 808
  | .deneb => 840

/-- an accepted proof has exactly the byte size of the era of the header's block number: a proof laid out for an
    era of another size is never accepted -/
theorem ok_size (q : Quirks) (t : Tables) (n : Nat) (hash : Hash) (proof : List Nat)
    (hok : validate H q t n hash proof = .ok) : proof.length = eraSize (eraOf n) := by
  unfold validate at hok
  cases he : eraOf n with
  | preMerge =>
    rw [he] at hok
    simp only at hok
    obtain ⟨r, s, _, hs, hl, _⟩ := (validatePre_ok_iff H q t n hash _).1 hok
    have := chunksOf_length proof s hs
    rw [this, hl]; rfl
  | bellatrix =>
    rw [he] at hok
    simp only at hok
    cases hd : decodePM 14 11 proof with
    | none => simp [hd] at hok
    | some p => exact (decodePM_lengths 14 11 proof p hd).2.2
  | capella =>
    rw [he] at hok
    simp only at hok
    cases hd : decodePM 13 11 proof with
    | none => simp [hd] at hok
    | some p => exact (decodePM_lengths 13 11 proof p hd).2.2
  | deneb =>
    rw [he] at hok
    simp only at hok
    cases hd : decodePM 13 12 proof with
    | none => simp [hd] at hok
    | some p => exact (decodePM_lengths 13 12 proof p hd).2.2

/-- the verdict for a header depends only on the accumulator of the era its block number lies in -/
theorem era_own_table (q : Quirks) (t t' : Tables) (n : Nat) (hash : Hash) (proof : List Nat)
    (h : match eraOf n with
         | .preMerge => t.epochs = t'.epochs
         | .bellatrix => t.roots = t'.roots
         | _ => t.summaries = t'.summaries ∧ t.oracle = t'.oracle) :
    validate H q t n hash proof = validate H q t' n hash proof := by
  unfold validate
  cases he : eraOf n with
  | preMerge => rw [he] at h; simp only at h ⊢; unfold validatePre; rw [h]
  | bellatrix => rw [he] at h; simp only at h ⊢; unfold validateBell; rw [h]
  | capella =>
    rw [he] at h; simp only at h ⊢
    unfold validateSumm lookupSummary; rw [h.1, h.2]
  | deneb =>
    rw [he] at h; simp only at h ⊢
    unfold validateSumm lookupSummary; rw [h.1, h.2]

/-- top level = era validator on the decoded proof -/
theorem validate_premerge (q : Quirks) (t : Tables) (n : Nat) (hash : Hash) (proof : List Nat) (h : n < mergeBlock) :
    validate H q t n hash proof = validatePre H q t n hash (chunksOf proof) := by
  unfold validate; rw [eraOf_pre n h]

theorem validate_bellatrix (q : Quirks) (t : Tables) (n : Nat) (hash : Hash) (proof : List Nat) (p : PM)
    (h1 : mergeBlock ≤ n) (h2 : n < shanghaiBlock) (hd : decodePM 14 11 proof = some p) :
    validate H q t n hash proof = validateBell H q t hash p := by
  unfold validate; rw [eraOf_bell n h1 h2]; simp [hd]

theorem validate_capella (q : Quirks) (t : Tables) (n : Nat) (hash : Hash) (proof : List Nat) (p : PM)
    (h1 : shanghaiBlock ≤ n) (h2 : n < cancunBlock) (hd : decodePM 13 11 proof = some p) :
    validate H q t n hash proof = validateSumm H gindexBellatrix t hash p := by
  unfold validate; rw [eraOf_cap n h1 h2]; simp [hd]

theorem validate_deneb (q : Quirks) (t : Tables) (n : Nat) (hash : Hash) (proof : List Nat) (p : PM)
    (h1 : cancunBlock ≤ n) (hd : decodePM 13 12 proof = some p) :
    validate H q t n hash proof = validateSumm H gindexDeneb t hash p := by
  unfold validate; rw [eraOf_deneb n h1]; simp [hd]

end Hp
