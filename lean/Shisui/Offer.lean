/-! C09 prototype: OFFER handling — per-key verdicts, connection id, and what reaches validation. -/
namespace Of

inductive Verdict where
  | accepted | declined | alreadyStored | notWithinRadius | rateLimited | inProgress
deriving DecidableEq, Repr

structure Env where
  inRange : Nat → Bool
  stored : Nat → Bool
  inflight : Nat → Bool
  queueFull : Bool         -- only consulted by the v0 filter

/-- `filterContentKeysV1` -/
def verdictV1 (e : Env) (k : Nat) : Verdict :=
  if !e.inRange k then .notWithinRadius
  else if e.stored k then .alreadyStored
  else if e.inflight k then .inProgress
  else .accepted

/-- `filterContentKeysV0` (bit per key) rendered as verdicts -/
def verdictV0 (e : Env) (k : Nat) : Verdict :=
  if !e.queueFull && e.inRange k && !e.stored k then .accepted else .declined

def verdicts (v : Nat) (e : Env) (keys : List Nat) : List Verdict :=
  keys.map (if v = 0 then verdictV0 e else verdictV1 e)

structure Reply where
  verdicts : List Verdict
  connId : Option Nat           -- announced connection id (none = 0 on the wire)
  waitingFor : List Nat         -- keys the receive goroutine will pair with the stream, if any

def acceptedKeys (keys : List Nat) (vs : List Verdict) : List Nat :=
  (keys.zip vs).filterMap (fun p => if p.2 = .accepted then some p.1 else none)

/-- `handleOffer`; `quirkV0` = keep the accept bits when no slot was obtained (the code today) -/
def handleOffer (quirkV0 : Bool) (v : Nat) (e : Env) (permit : Bool) (cid : Nat) (keys : List Nat) : Reply :=
  let vs := verdicts v e keys
  let acc := acceptedKeys keys vs
  if acc = [] then { verdicts := vs, connId := none, waitingFor := [] }
  else if permit then { verdicts := vs, connId := some cid, waitingFor := acc }
  else if v = 0 then
    { verdicts := if quirkV0 then vs else vs.map (fun _ => .declined), connId := none, waitingFor := [] }
  else { verdicts := vs.map (fun _ => .rateLimited), connId := none, waitingFor := [] }

/-- C09: exactly one verdict per offered key -/
theorem verdict_count (q : Bool) (v : Nat) (e : Env) (p : Bool) (cid : Nat) (keys : List Nat) :
    (handleOffer q v e p cid keys).verdicts.length = keys.length := by
  unfold handleOffer
  simp only
  split
  · simp [verdicts]
  · split
    · simp [verdicts]
    · split
      · split <;> simp [verdicts]
      · simp [verdicts]

theorem getElem_verdicts (v : Nat) (e : Env) (keys : List Nat) (i : Nat) (h : i < keys.length) :
    (verdicts v e keys)[i]'(by simp [verdicts]; exact h) = (if v = 0 then verdictV0 e else verdictV1 e) keys[i] := by
  simp [verdicts]

/-- C09 (ideal model): a key is marked accepted only if it is in range, not stored, (v1) not already
    being received, and a slot was obtained -/
theorem accepted_only_if (v : Nat) (e : Env) (p : Bool) (cid : Nat) (keys : List Nat) (i : Nat)
    (hi : i < keys.length)
    (h : (handleOffer false v e p cid keys).verdicts[i]? = some .accepted) :
    e.inRange keys[i] = true ∧ e.stored keys[i] = false ∧ (v ≠ 0 → e.inflight keys[i] = false) ∧ p = true := by
  unfold handleOffer at h
  simp only at h
  have hlen : i < (verdicts v e keys).length := by simp [verdicts]; exact hi
  have key : (verdicts v e keys)[i]? = some .accepted →
      e.inRange keys[i] = true ∧ e.stored keys[i] = false ∧ (v ≠ 0 → e.inflight keys[i] = false) := by
    intro h
    rw [List.getElem?_eq_getElem hlen] at h
    simp only [Option.some.injEq] at h
    rw [getElem_verdicts v e keys i hi] at h
    by_cases hv : v = 0
    · simp only [hv, if_true, verdictV0] at h
      split at h
      · rename_i hc; simp at hc; exact ⟨hc.1.2, hc.2, fun h0 => absurd hv h0⟩
      · simp at h
    · simp only [hv, if_false, verdictV1] at h
      split at h
      · simp at h
      · rename_i h1
        split at h
        · simp at h
        · rename_i h2
          split at h
          · simp at h
          · rename_i h3
            exact ⟨by simpa using h1, by simpa using h2, fun _ => by simpa using h3⟩
  split at h
  · -- nothing accepted at all
    rename_i hnone
    exfalso
    have hk := key h
    -- but then key i would be among the accepted keys
    have : keys[i] ∈ acceptedKeys keys (verdicts v e keys) := by
      unfold acceptedKeys
      rw [List.mem_filterMap]
      refine ⟨(keys[i], .accepted), ?_, by simp⟩
      rw [List.getElem?_eq_getElem hlen] at h
      simp only [Option.some.injEq] at h
      rw [← h]
      have : (keys.zip (verdicts v e keys))[i]'(by simp [verdicts]; exact hi) = (keys[i], (verdicts v e keys)[i]) := by
        simp
      rw [← this]; exact List.getElem_mem _
    rw [hnone] at this; simp at this
  · split at h
    · rename_i hp
      have := key h
      exact ⟨this.1, this.2.1, this.2.2, hp⟩
    · split at h
      · simp only [Bool.false_eq_true, if_false] at h
        rw [List.getElem?_map] at h
        cases hx : (verdicts v e keys)[i]? <;> simp [hx] at h
      · rw [List.getElem?_map] at h
        cases hx : (verdicts v e keys)[i]? <;> simp [hx] at h

/-- C09: a connection id is announced exactly when the node is waiting for the accepted keys -/
theorem connid_iff (v : Nat) (e : Env) (p : Bool) (cid : Nat) (keys : List Nat) :
    ((handleOffer false v e p cid keys).connId.isSome ↔ (handleOffer false v e p cid keys).waitingFor ≠ []) ∧
    ((handleOffer false v e p cid keys).connId.isSome →
       (handleOffer false v e p cid keys).waitingFor = acceptedKeys keys (handleOffer false v e p cid keys).verdicts) := by
  unfold handleOffer
  simp only
  split
  · simp
  · rename_i hne
    split
    · simp [hne]
    · split <;> simp

/-- as implemented today: version 0, no slot, both keys marked accepted, nobody waiting -/
theorem quirk_v0_ratelimited_breaks_C09 :
    let e : Env := { inRange := fun _ => true, stored := fun _ => false, inflight := fun _ => false, queueFull := false }
    let r := handleOffer true 0 e false 7 [1, 2]
    r.verdicts = [Verdict.accepted, Verdict.accepted] ∧ r.connId = none ∧ r.waitingFor = [] := by
  decide

/-- what both sides select with the verdict list: the offerer from its contents, the receiver from the keys -/
def pick {α : Type} (xs : List α) (vs : List Verdict) : List α :=
  (xs.zip vs).filterMap (fun p => if p.2 = .accepted then some p.1 else none)

theorem acceptedKeys_eq_pick (keys : List Nat) (vs : List Verdict) : acceptedKeys keys vs = pick keys vs := rfl

/-- C09: the items handed to validation are exactly the offered contents of the accepted keys paired
    with those keys, in order (given the stream round-trips, C15, and the verdict list round-trips, C14) -/
theorem pairing {α β : Type} (ks : List α) (cs : List β) (vs : List Verdict)
    (h1 : ks.length = vs.length) (h2 : cs.length = vs.length) :
    (pick ks vs).zip (pick cs vs) = pick (ks.zip cs) vs ∧ (pick ks vs).length = (pick cs vs).length := by
  induction vs generalizing ks cs with
  | nil => simp [pick]
  | cons v vs ih =>
    cases ks with
    | nil => simp at h1
    | cons k ks =>
      cases cs with
      | nil => simp at h2
      | cons c cs =>
        have := ih ks cs (by simpa using h1) (by simpa using h2)
        simp only [pick, List.zip_cons_cons, List.filterMap_cons] at this ⊢
        by_cases hv : v = .accepted
        · simp only [hv, if_true, List.zip_cons_cons, List.length_cons]
          exact ⟨by rw [this.1], by rw [this.2]⟩
        · simp only [hv, if_false]
          exact this

/-- a stream with a different item count is discarded -/
def handleOfferedContents {α β : Type} (keys : List α) (contents : List β) : Option (List (α × β)) :=
  if keys.length ≠ contents.length then none else some (keys.zip contents)

theorem count_mismatch_dropped {α β : Type} (keys : List α) (contents : List β) (h : keys.length ≠ contents.length) :
    handleOfferedContents keys contents = none := by simp [handleOfferedContents, h]

#print axioms pairing

#print axioms accepted_only_if
end Of

namespace Of
def Verdict.name : Verdict → String
  | .accepted => "accepted" | .declined => "declined" | .alreadyStored => "alreadyStored"
  | .notWithinRadius => "notWithinRadius" | .rateLimited => "rateLimited" | .inProgress => "inProgress"
end Of
