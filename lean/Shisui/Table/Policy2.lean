import Shisui.Table.Reval
/-! C18: when an entry may leave a bucket, what succeeds it, and the liveness-credit rule. -/
namespace Tb

/-- `deleteInBucket` removes at most the entry with the given id from bucket `i`; every other entry id of every
    bucket stays (a promoted replacement is appended) -/
theorem deleteInBucket_ids (t : Table) (i id rnd k : Nat) :
    ∀ x ∈ entryIds t k, (x ≠ id ∨ k ≠ i) → x ∈ entryIds (deleteInBucket t i id rnd) k := by
  intro x hx hne
  unfold deleteInBucket
  simp only
  split
  · exact hx
  · rename_i n hfind
    -- after filtering and removeIP
    have hR := removeIP_eff ({ t with bkt := upd t.bkt i { t.bkt i with entries := (t.bkt i).entries.filter (fun m => m.r.id != id) } }) i n.r.addr
    have hEk : ((removeIP ({ t with bkt := upd t.bkt i { t.bkt i with entries := (t.bkt i).entries.filter (fun m => m.r.id != id) } }) i n.r.addr).bkt k).entries
        = if k = i then (t.bkt i).entries.filter (fun m => m.r.id != id) else (t.bkt k).entries := by
      rw [(hR.2.2.1 k).1]
      by_cases hk : k = i
      · subst hk; simp
      · simp [hk, upd_other _ _ _ _ hk]
    have hxin : x ∈ ((removeIP ({ t with bkt := upd t.bkt i { t.bkt i with entries := (t.bkt i).entries.filter (fun m => m.r.id != id) } }) i n.r.addr).bkt k).entries.map (·.r.id) := by
      rw [hEk]
      unfold entryIds at hx
      by_cases hk : k = i
      · subst hk
        simp only [if_true]
        obtain ⟨m, hm, hmx⟩ := List.mem_map.mp hx
        refine List.mem_map.mpr ⟨m, List.mem_filter.mpr ⟨hm, ?_⟩, hmx⟩
        rcases hne with h | h
        · simp [hmx, h]
        · exact absurd rfl h
      · simp only [hk, if_false]; exact hx
    generalize removeIP ({ t with bkt := upd t.bkt i { t.bkt i with entries := (t.bkt i).entries.filter (fun m => m.r.id != id) } }) i n.r.addr = t2 at *
    split
    · exact hxin
    · rename_i rep hrep
      unfold entryIds
      by_cases hk : k = i
      · subst hk
        simp only [upd_same, List.map_append]
        exact List.mem_append_left _ hxin
      · simp only [upd_other _ _ _ _ hk]
        exact hxin

theorem foldAdd_ids (bo : Nat → Nat) (found : List Rec) (k : Nat) :
    ∀ t, ∀ x ∈ entryIds t k, x ∈ entryIds (found.foldl (fun t r => (handleAddNode bo t r false false).1) t) k := by
  induction found with
  | nil => intro t x hx; exact hx
  | cons r rs ih => intro t x hx; exact ih _ x (add_never_displaces bo t r false false k x hx)

/-- the entry with id `id` (if any) of bucket `i` -/
def entryOf (t : Table) (i id : Nat) : Option TNode := (t.bkt i).entries.find? (fun n => n.r.id == id)

/-- **C18**: an entry id that was in bucket `k` and no longer is after one operation left for one of exactly three
    reasons — explicit deletion of that id; a failed liveness check of that id that exhausted its credit
    (`checks / 3 = 0`); a failure report for that id with at least five consecutive failures while the bucket had at
    least `bucketSize/4 = 4` entries. Additions of any kind (found, inbound, lookup feedback, into full buckets) and
    answered checks never remove an entry. -/
theorem entry_leaves_only_if (bo : Nat → Nat) (t : Table) (op : Op2) (k x : Nat)
    (hx : x ∈ entryIds t k) (hgone : x ∉ entryIds (step2 bo t op) k) :
    (∃ rnd, op = .delete x rnd ∧ k = bo x) ∨
    (∃ oid rnd n, op = .revalFail x oid rnd ∧ k = bo x ∧ entryOf t k x = some n ∧ n.oid = oid ∧ n.checks / 3 = 0) ∨
    (∃ fails rnd found, op = .track x fails rnd found ∧ k = bo x ∧ fails ≥ 5 ∧ (t.bkt k).entries.length ≥ 4) := by
  cases op with
  | add r inb fl => exact absurd (add_never_displaces bo t r inb fl k x hx) hgone
  | delete id rnd =>
    left
    by_cases h : x ≠ id ∨ k ≠ bo id
    · exact absurd (deleteInBucket_ids t (bo id) id rnd k x hx h) hgone
    · have h1 : x = id := Classical.byContradiction fun hne => h (Or.inl hne)
      have h2 : k = bo id := Classical.byContradiction fun hne => h (Or.inr hne)
      subst h1; exact ⟨rnd, rfl, h2⟩
  | revalFail id oid rnd =>
    right; left
    simp only [step2, revalFail] at hgone
    split at hgone
    · exact absurd hx hgone
    · rename_i n hfind
      split at hgone
      · exact absurd hx hgone
      · rename_i hoid
        split at hgone
        · rename_i hc
          by_cases h : x ≠ id ∨ k ≠ bo id
          · exact absurd (deleteInBucket_ids t (bo id) id rnd k x hx h) hgone
          · have h1 : x = id := Classical.byContradiction fun hne => h (Or.inl hne)
            have h2 : k = bo id := Classical.byContradiction fun hne => h (Or.inr hne)
            subst h1; subst h2
            exact ⟨oid, rnd, n, rfl, rfl, hfind, by simpa using hoid, hc⟩
        · rw [setEntry_ids t (bo id) id failChecks (fun _ h => h) k] at hgone
          exact absurd hx hgone
  | revalOk id oid nr =>
    exfalso
    simp only [step2, revalOk] at hgone
    split at hgone
    · exact hgone hx
    · split at hgone
      · exact hgone hx
      · split at hgone
        · rw [setEntry_ids t (bo id) id okChecks (fun _ h => h) k] at hgone; exact hgone hx
        · rw [bump_ids, setEntry_ids t (bo id) id okChecks (fun _ h => h) k] at hgone; exact hgone hx
  | track id fails rnd found =>
    right; right
    simp only [step2, trackRequest] at hgone
    split at hgone
    · rename_i hc
      by_cases h : x ≠ id ∨ k ≠ bo id
      · exact absurd (foldAdd_ids bo found k _ x (deleteInBucket_ids t (bo id) id rnd k x hx h)) hgone
      · have h1 : x = id := Classical.byContradiction fun hne => h (Or.inl hne)
        have h2 : k = bo id := Classical.byContradiction fun hne => h (Or.inr hne)
        subst h1; subst h2
        exact ⟨fails, rnd, found, rfl, rfl, hc.1, by have := hc.2; simp only [bucketSize] at this; omega⟩
    · exact absurd (foldAdd_ids bo found k t x hx) hgone

/-- C18 "and is then succeeded by a replacement if one exists": when `deleteInBucket` removes an entry and the
    replacement list is non-empty, one replacement is appended to the entries and removed from the list -/
theorem successor (t : Table) (i id rnd : Nat) (n : TNode)
    (hfind : (t.bkt i).entries.find? (fun m => m.r.id == id) = some n) (hreps : (t.bkt i).reps ≠ []) :
    ∃ rep, rep ∈ (t.bkt i).reps ∧
      ((deleteInBucket t i id rnd).bkt i).entries = (t.bkt i).entries.filter (fun m => m.r.id != id) ++ [rep] ∧
      ((deleteInBucket t i id rnd).bkt i).reps.length + 1 = (t.bkt i).reps.length := by
  unfold deleteInBucket
  simp only [hfind]
  have hR := removeIP_eff ({ t with bkt := upd t.bkt i { t.bkt i with entries := (t.bkt i).entries.filter (fun m => m.r.id != id) } }) i n.r.addr
  have hE := (hR.2.2.1 i).1
  have hRp := (hR.2.2.1 i).2
  simp only [upd_same] at hE hRp
  generalize removeIP ({ t with bkt := upd t.bkt i { t.bkt i with entries := (t.bkt i).entries.filter (fun m => m.r.id != id) } }) i n.r.addr = t2 at *
  have hlen : 0 < (t2.bkt i).reps.length := by rw [hRp]; exact List.length_pos_iff.mpr hreps
  have hidx : rnd % (max (t2.bkt i).reps.length 1) < (t2.bkt i).reps.length := by
    have : max (t2.bkt i).reps.length 1 = (t2.bkt i).reps.length := by omega
    rw [this]; exact Nat.mod_lt _ hlen
  split
  · rename_i hnone
    rw [List.getElem?_eq_none_iff] at hnone
    omega
  · rename_i rep hrep
    refine ⟨rep, ?_, ?_, ?_⟩
    · rw [← hRp]; exact List.mem_of_getElem? hrep
    · simp only [upd_same, hE]
    · simp only [upd_same, List.length_eraseIdx, hidx, if_true, ← hRp]
      omega

/-- C18 credit rule: a failed check divides the credit by three (and deletes at zero), an answered check adds one and
    marks the node verified — by definition of the two updates -/
theorem credit_rule (m : TNode) : (failChecks m).checks = m.checks / 3 ∧ (failChecks m).r = m.r ∧
    (okChecks m).checks = m.checks + 1 ∧ (okChecks m).live = true ∧ (okChecks m).r = m.r := ⟨rfl, rfl, rfl, rfl, rfl⟩

#print axioms entry_leaves_only_if
#print axioms successor
end Tb
