import Shisui.Table.Step
namespace Tb

/-- Generic step lemma: an operation that rewrites one bucket (and the table-wide counters) keeps the
    invariant if the new bucket is well-formed and the table counter moved at least as much as the
    real population of that bucket. -/
theorem inv_update (bo : Nat → Nat) (t t' : Table) (i : Nat) (hi : i < nBuckets) (hinv : Inv bo t)
    (hself : t'.self = t.self)
    (hoth : ∀ k, k ≠ i → t'.bkt k = t.bkt k)
    (hb : BInv bo t.self i (t'.bkt i))
    (htab : ∀ s, real (nodes (t'.bkt i)) s + t.ips s ≤ real (nodes (t.bkt i)) s + t'.ips s ∧ t'.ips s ≤ tLimit) :
    Inv bo t' := by
  constructor
  · intro k
    rw [hself]
    by_cases hk : k = i
    · subst hk; exact hb
    · rw [hoth k hk]; exact hinv.b k
  · intro s
    have T := hinv.tcnt s
    have := sumTo_upd (fun k => real (nodes (t'.bkt k)) s) (fun k => real (nodes (t.bkt k)) s) i nBuckets
      (by intro k hk; simp only [hoth k hk]) hi
    have h2 : sumTo nBuckets (fun k => real (nodes (t'.bkt k)) s) + real (nodes (t.bkt i)) s
        = sumTo nBuckets (fun k => real (nodes (t.bkt k)) s) + real (nodes (t'.bkt i)) s := this
    have ht := htab s
    simp only [sumReal] at T ⊢
    omega

/-! ### removeIP -/

theorem removeIP_eff (t : Table) (i : Nat) (a : Addr) :
    (removeIP t i a).self = t.self ∧ (removeIP t i a).nextOid = t.nextOid ∧
    (∀ k, ((removeIP t i a).bkt k).entries = (t.bkt k).entries ∧ ((removeIP t i a).bkt k).reps = (t.bkt k).reps) ∧
    (∀ k, k ≠ i → (removeIP t i a).bkt k = t.bkt k) ∧
    ((a.lan = true ∧ (removeIP t i a).ips = t.ips ∧ ((removeIP t i a).bkt i).ips = (t.bkt i).ips) ∨
     (a.lan = false ∧ (removeIP t i a).ips = t.ips.dec a.subnet ∧
       ((removeIP t i a).bkt i).ips = (t.bkt i).ips.dec a.subnet)) := by
  unfold removeIP
  split
  · rename_i hl
    exact ⟨rfl, rfl, fun k => ⟨rfl, rfl⟩, fun k _ => rfl, Or.inl ⟨hl, rfl, rfl⟩⟩
  · rename_i hl
    refine ⟨rfl, rfl, ?_, ?_, Or.inr ⟨by simpa using hl, rfl, by simp⟩⟩
    · intro k
      by_cases hk : k = i
      · subst hk; simp
      · simp [upd_other _ _ _ _ hk]
    · intro k hk; simp [upd_other _ _ _ _ hk]

/-! ### counting helpers -/

theorem real_cons (n : TNode) (l : List TNode) (s : Nat) :
    real (n :: l) s = (if isIn s n then 1 else 0) + real l s := by
  simp only [real, List.countP_cons]; split <;> omega

theorem real_le_one_of_single (n : TNode) (s : Nat) : (if isIn s n = true then 1 else 0) ≤ 1 := by
  split <;> omega

/-- removing the unique node with a given id lowers the real count by that node's contribution -/
theorem real_remove (l : List TNode) (n : TNode) (s : Nat) (hn : n ∈ l)
    (hnd : (l.map (·.r.id)).Nodup) :
    real (l.filter (fun m => m.r.id != n.r.id)) s + (if isIn s n then 1 else 0) = real l s := by
  induction l with
  | nil => simp at hn
  | cons x xs ih =>
    simp only [List.map_cons, List.nodup_cons] at hnd
    simp only [List.mem_cons] at hn
    simp only [List.filter_cons]
    rcases hn with rfl | hn
    · -- the head is the node: the tail contains no node with that id
      have htail : xs.filter (fun m => m.r.id != n.r.id) = xs := by
        apply List.filter_eq_self.mpr
        intro m hm
        have : m.r.id ≠ n.r.id := fun h => hnd.1 (List.mem_map.mpr ⟨m, hm, h⟩)
        simpa using this
      simp only [bne_self_eq_false, Bool.false_eq_true, if_false, htail, real_cons]
      omega
    · have hx : x.r.id ≠ n.r.id := fun h => hnd.1 (List.mem_map.mpr ⟨n, hn, h.symm⟩)
      have : (x.r.id != n.r.id) = true := by simpa using hx
      simp only [this, if_true, real_cons]
      have := ih hn hnd.2
      omega

theorem real_dropLast (l : List TNode) (s : Nat) :
    real l.dropLast s + (match l.getLast? with | some x => (if isIn s x then 1 else 0) | none => 0) = real l s := by
  induction l with
  | nil => simp [real]
  | cons x xs ih =>
    cases xs with
    | nil => simp [real, List.countP_cons]
    | cons y ys =>
      simp only [List.dropLast_cons_cons, List.getLast?_cons_cons]
      rw [real_cons x ((y :: ys).dropLast), real_cons x (y :: ys)]
      have := ih
      omega

end Tb
