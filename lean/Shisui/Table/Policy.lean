import Shisui.Table.Add
namespace Tb

/-! C18: what the operations are allowed to do to bucket membership and records. -/

theorem addIP_entries (t : Table) (i : Nat) (a : Addr) (k : Nat) :
    ((addIP t i a).2.bkt k).entries = (t.bkt k).entries ∧ ((addIP t i a).2.bkt k).reps = (t.bkt k).reps := by
  cases h : addIP t i a with
  | mk ok t1 =>
    cases ok with
    | false => rw [addIP_false t i a t1 h]; exact ⟨rfl, rfl⟩
    | true => exact (addIP_true t i a t1 h).2.2.2.1 k

/-- C18: a newcomer to a full bucket changes no entry; it can only become the first replacement,
    pushing out the oldest one when ten are already waiting -/
theorem full_bucket_newcomer (t : Table) (i : Nat) (r : Rec) :
    ((addReplacement t i r).bkt i).entries = (t.bkt i).entries ∧
    (((addReplacement t i r).bkt i).reps = (t.bkt i).reps ∨
     (∃ wn, wn.r = r ∧ (t.bkt i).reps.length < maxReps ∧ ((addReplacement t i r).bkt i).reps = wn :: (t.bkt i).reps) ∨
     (∃ wn, wn.r = r ∧ ¬ (t.bkt i).reps.length < maxReps ∧
        ((addReplacement t i r).bkt i).reps = wn :: (t.bkt i).reps.dropLast)) := by
  unfold addReplacement
  split
  · exact ⟨rfl, Or.inl rfl⟩
  · split
    · exact ⟨rfl, Or.inl rfl⟩
    · rename_i t1 hadd
      obtain ⟨_, _, _, hsame, _⟩ := addIP_true _ _ _ _ hadd
      have he := (hsame i).1
      have hr := (hsame i).2
      rcases pushNode_spec (t1.bkt i).reps (mkNode t1.nextOid r 0 false) with ⟨hp1, hp2, hlen⟩ | ⟨hp1, hp2, hlen⟩
      · simp only [hp1, hp2]
        obtain ⟨_, _, hSe, hSr, _, _⟩ := setReps_eff t1 i (mkNode t1.nextOid r 0 false :: (t1.bkt i).reps)
        refine ⟨by rw [hSe, he], Or.inr (Or.inl ⟨mkNode t1.nextOid r 0 false, rfl, by rw [← hr]; exact hlen, by rw [hSr, hr]⟩)⟩
      · simp only [hp1, hp2]
        obtain ⟨_, _, hSe, hSr, _, _⟩ := setReps_eff t1 i (mkNode t1.nextOid r 0 false :: (t1.bkt i).reps.dropLast)
        cases hlast : (t1.bkt i).reps.getLast? with
        | none =>
          simp only
          refine ⟨by rw [hSe, he], Or.inr (Or.inr ⟨mkNode t1.nextOid r 0 false, rfl, by rw [← hr]; exact hlen, by rw [hSr, hr]⟩)⟩
        | some rm =>
          simp only
          obtain ⟨_, _, hRsame, _, _⟩ := removeIP_eff (setReps t1 i (mkNode t1.nextOid r 0 false :: (t1.bkt i).reps.dropLast)) i rm.r.addr
          refine ⟨by rw [(hRsame i).1, hSe, he], Or.inr (Or.inr ⟨mkNode t1.nextOid r 0 false, rfl, by rw [← hr]; exact hlen, by rw [(hRsame i).2, hSr, hr]⟩)⟩

/-- C18: a record in the bucket changes only to a higher sequence number, or when the node itself
    contacted us; and if its address or port changed, it is no longer considered verified -/
theorem record_change (t : Table) (i : Nat) (nr : Rec) (inbound : Bool) (n : TNode)
    (hnd : ((t.bkt i).entries.map (·.r.id)).Nodup)
    (hfind : (t.bkt i).entries.find? (fun m => m.r.id == nr.id) = some n) :
    ∀ m ∈ ((bump t i nr inbound).1.bkt i).entries, m.r.id = nr.id →
      m.r = n.r ∨ (m.r = nr ∧ (nr.seq > n.r.seq ∨ inbound = true) ∧
                   ((nr.addr ≠ n.r.addr ∨ nr.port ≠ n.r.port) → m.live = false)) := by
  have hn : n ∈ (t.bkt i).entries := List.mem_of_find?_eq_some hfind
  have hid : n.r.id = nr.id := by
    have := List.find?_some hfind
    simpa using this
  have same : ∀ m ∈ (t.bkt i).entries, m.r.id = nr.id → m.r = n.r := by
    intro m hm hmid
    rw [nodup_map_inj _ hnd m n hm hn (by rw [hmid, hid])]
  unfold bump
  rw [hfind]
  simp only
  split
  · intro m hm hmid; exact Or.inl (same m hm hmid)
  · rename_i hseq
    have hseq' : nr.seq > n.r.seq ∨ inbound = true := by
      by_cases hs : nr.seq ≤ n.r.seq
      · right
        cases hb : inbound with
        | true => rfl
        | false => exact absurd ⟨hs, hb⟩ hseq
      · left; omega
    split
    · rename_i hchg
      split
      · -- refused: previous record put back, entries untouched
        intro m hm hmid
        rw [(addIP_entries _ i n.r.addr i).1, ((removeIP_eff t i n.r.addr).2.2.1 i).1] at hm
        exact Or.inl (same m hm hmid)
      · rename_i x t2 hadd
        intro m hm hmid
        obtain ⟨_, _, hSe, _, _, _⟩ := setEntry_eff t2 i nr.id (fun m => { m with r := nr, live := false })
        simp only at hm
        rw [hSe, ((addIP_true _ _ _ _ hadd).2.2.2.1 i).1, ((removeIP_eff t i n.r.addr).2.2.1 i).1] at hm
        obtain ⟨m0, hm0, rfl⟩ := List.mem_map.mp hm
        split at hmid
        · right; simp only [if_pos ‹m0.r.id = nr.id›]
          exact ⟨trivial, hseq', fun _ => trivial⟩
        · rename_i hne; exact absurd hmid hne
    · rename_i hsame
      have hsa : nr.addr = n.r.addr := by simpa using hsame
      intro m hm hmid
      obtain ⟨_, _, hSe, _, _, _⟩ := setEntry_eff t i nr.id
        (fun m => { m with r := nr, live := if nr.port ≠ n.r.port then false else m.live })
      simp only at hm
      rw [hSe] at hm
      obtain ⟨m0, hm0, rfl⟩ := List.mem_map.mp hm
      split at hmid
      · right; simp only [if_pos ‹m0.r.id = nr.id›]
        refine ⟨trivial, hseq', ?_⟩
        intro h
        rcases h with h | h
        · exact absurd hsa h
        · simp [h]
      · rename_i hne; exact absurd hmid hne

#print axioms full_bucket_newcomer
#print axioms record_change
end Tb
