/-! Prototype of the routing-table model (C07/C18), core only. -/
namespace Tb

structure Addr where
  subnet : Nat
  host : Nat
  lan : Bool
  valid : Bool
deriving DecidableEq, Repr

structure Rec where
  id : Nat
  addr : Addr
  port : Nat
  seq : Nat
deriving DecidableEq, Repr

structure TNode where
  oid : Nat
  r : Rec
  checks : Nat
  live : Bool
deriving DecidableEq, Repr

abbrev Cnt := Nat → Nat

def Cnt.inc (c : Cnt) (s : Nat) : Cnt := fun k => if k = s then c k + 1 else c k
def Cnt.dec (c : Cnt) (s : Nat) : Cnt := fun k => if k = s then c k - 1 else c k

structure Bucket where
  entries : List TNode
  reps : List TNode
  ips : Cnt

structure Table where
  self : Nat
  bkt : Nat → Bucket
  ips : Cnt
  nextOid : Nat
  initDone : Bool

def bucketSize := 16
def maxReps := 10
def bLimit := 2
def tLimit := 10
def nBuckets := 17

def upd (f : Nat → Bucket) (i : Nat) (b : Bucket) : Nat → Bucket := fun k => if k = i then b else f k

/-- `Table.addIP` -/
def addIP (t : Table) (i : Nat) (a : Addr) : Bool × Table :=
  if !a.valid then (false, t)
  else if a.lan then (true, t)
  else if t.ips a.subnet < tLimit then
    if (t.bkt i).ips a.subnet < bLimit then
      (true, { t with ips := t.ips.inc a.subnet,
                      bkt := upd t.bkt i { t.bkt i with ips := (t.bkt i).ips.inc a.subnet } })
    else (false, t)
  else (false, t)

/-- `Table.removeIP` -/
def removeIP (t : Table) (i : Nat) (a : Addr) : Table :=
  if a.lan then t
  else { t with ips := t.ips.dec a.subnet,
                bkt := upd t.bkt i { t.bkt i with ips := (t.bkt i).ips.dec a.subnet } }

def hasId (l : List TNode) (id : Nat) : Bool := l.any (fun n => n.r.id == id)

/-- `pushNode`: add to the front keeping at most `maxReps`; returns the evicted node if any -/
def pushNode (l : List TNode) (n : TNode) : List TNode × Option TNode :=
  if l.length < maxReps then (n :: l, none) else (n :: l.dropLast, l.getLast?)

def mkNode (oid : Nat) (r : Rec) (checks : Nat) (live : Bool) : TNode :=
  { oid := oid, r := r, checks := checks, live := live }

/-- store a new replacement list for bucket `i` (a fresh node object was allocated) -/
def setReps (t : Table) (i : Nat) (reps : List TNode) : Table :=
  { t with nextOid := t.nextOid + 1, bkt := upd t.bkt i { t.bkt i with reps := reps } }

/-- `Table.addReplacement` -/
def addReplacement (t : Table) (i : Nat) (r : Rec) : Table :=
  if hasId (t.bkt i).reps r.id then t
  else match addIP t i r.addr with
    | (false, _) => t
    | (true, t1) =>
      match (pushNode (t1.bkt i).reps (mkNode t1.nextOid r 0 false)).2 with
      | none => setReps t1 i (pushNode (t1.bkt i).reps (mkNode t1.nextOid r 0 false)).1
      | some rm => removeIP (setReps t1 i (pushNode (t1.bkt i).reps (mkNode t1.nextOid r 0 false)).1) i rm.r.addr

/-- `Table.handleAddNode` without the bump part (node not yet in entries) -/
def addNew (bo : Nat → Nat) (t : Table) (r : Rec) (forceLive : Bool) : Table × Bool :=
  let i := bo r.id
  if (t.bkt i).entries.length ≥ bucketSize then (addReplacement t i r, false)
  else match addIP t i r.addr with
    | (false, _) => (t, false)
    | (true, t1) =>
      let wn : TNode := { oid := t1.nextOid, r := r, checks := if forceLive then 1 else 0, live := forceLive }
      let b1 := t1.bkt i
      ({ t1 with nextOid := t1.nextOid + 1,
                 bkt := upd t1.bkt i { b1 with entries := b1.entries ++ [wn],
                                               reps := b1.reps.filter (fun n => n.r.id != r.id) } }, true)

/-- `Table.deleteInBucket`; `rnd` is the value `rand.Intn` returned -/
def deleteInBucket (t : Table) (i : Nat) (id : Nat) (rnd : Nat) : Table :=
  let b := t.bkt i
  match b.entries.find? (fun n => n.r.id == id) with
  | none => t
  | some n =>
    let t1 : Table := { t with bkt := upd t.bkt i { b with entries := b.entries.filter (fun m => m.r.id != id) } }
    let t2 := removeIP t1 i n.r.addr
    let b2 := t2.bkt i
    match b2.reps[rnd % (max b2.reps.length 1)]? with
    | none => t2
    | some rep =>
      { t2 with bkt := upd t2.bkt i { b2 with entries := b2.entries ++ [rep],
                                              reps := b2.reps.eraseIdx (rnd % (max b2.reps.length 1)) } }

end Tb

namespace Tb

/-- rewrite the entry with the given id in bucket `i` -/
def setEntry (t : Table) (i : Nat) (id : Nat) (f : TNode → TNode) : Table :=
  { t with bkt := upd t.bkt i { t.bkt i with entries := (t.bkt i).entries.map (fun n => if n.r.id = id then f n else n) } }

/-- `Table.bumpInBucket` (bucket bookkeeping part); second component: the node was found -/
def bump (t : Table) (i : Nat) (nr : Rec) (inbound : Bool) : Table × Bool :=
  match (t.bkt i).entries.find? (fun n => n.r.id == nr.id) with
  | none => (t, false)
  | some n =>
    if nr.seq ≤ n.r.seq ∧ inbound = false then (t, true)
    else if nr.addr ≠ n.r.addr then
      match addIP (removeIP t i n.r.addr) i nr.addr with
      | (false, _) => ((addIP (removeIP t i n.r.addr) i n.r.addr).2, true)   -- put the previous record back
      | (true, t2) => (setEntry t2 i nr.id (fun m => { m with r := nr, live := false }), true)
    else (setEntry t i nr.id (fun m => { m with r := nr, live := if nr.port ≠ n.r.port then false else m.live }), true)

end Tb

namespace Tb
/-- `Table.handleAddNode` -/
def handleAddNode (bo : Nat → Nat) (t : Table) (r : Rec) (inbound forceLive : Bool) : Table × Bool :=
  if r.id = t.self then (t, false)
  else if inbound = true ∧ t.initDone = false then (t, false)
  else
    match bump t (bo r.id) r inbound with
    | (t', true) => (t', false)          -- already in the bucket (record possibly updated)
    | (_, false) => addNew bo t r forceLive
end Tb
