import Shisui.Table.Repl
namespace Tb

theorem real_map_entry (l : List TNode) (n : TNode) (f : TNode → TNode) (s : Nat) (hn : n ∈ l)
    (hnd : (l.map (·.r.id)).Nodup) :
    real (l.map (fun m => if m.r.id = n.r.id then f m else m)) s + delta n.r.addr s =
      real l s + delta (f n).r.addr s := by
  induction l with
  | nil => simp at hn
  | cons x xs ih =>
    simp only [List.map_cons, List.nodup_cons] at hnd
    simp only [List.mem_cons] at hn
    simp only [List.map_cons, real_cons, isIn_delta]
    rcases hn with rfl | hn
    · have htail : xs.map (fun m => if m.r.id = n.r.id then f m else m) = xs := by
        have : xs.map (fun m => if m.r.id = n.r.id then f m else m) = xs.map id := by
          apply List.map_congr_left
          intro m hm
          have : m.r.id ≠ n.r.id := fun h => hnd.1 (List.mem_map.mpr ⟨m, hm, h⟩)
          simp [this]
        rw [this, List.map_id]
      simp only [if_true, htail]
      omega
    · have hx : x.r.id ≠ n.r.id := fun h => hnd.1 (List.mem_map.mpr ⟨n, hn, h.symm⟩)
      simp only [hx, if_false]
      have := ih hn hnd.2
      omega

theorem nodup_map_inj (l : List TNode) (hnd : (l.map (·.r.id)).Nodup) (a b : TNode)
    (ha : a ∈ l) (hb : b ∈ l) (h : a.r.id = b.r.id) : a = b := by
  induction l with
  | nil => simp at ha
  | cons x xs ih =>
    simp only [List.map_cons, List.nodup_cons] at hnd
    simp only [List.mem_cons] at ha hb
    rcases ha with rfl | ha <;> rcases hb with rfl | hb
    · rfl
    · exact absurd (List.mem_map.mpr ⟨b, hb, h.symm⟩) hnd.1
    · exact absurd (List.mem_map.mpr ⟨a, ha, h⟩) hnd.1
    · exact ih hnd.2 ha hb

theorem map_entry_ids (l : List TNode) (id : Nat) (f : TNode → TNode) (hf : ∀ m, m.r.id = id → (f m).r.id = id) :
    (l.map (fun m => if m.r.id = id then f m else m)).map (·.r.id) = l.map (·.r.id) := by
  induction l with
  | nil => rfl
  | cons x xs ih =>
    simp only [List.map_cons, ih]
    congr 1
    split
    · rename_i h; rw [hf x h, h]
    · rfl

theorem setEntry_eff (t : Table) (i id : Nat) (f : TNode → TNode) :
    (setEntry t i id f).self = t.self ∧ (setEntry t i id f).ips = t.ips ∧
    ((setEntry t i id f).bkt i).entries = (t.bkt i).entries.map (fun n => if n.r.id = id then f n else n) ∧
    ((setEntry t i id f).bkt i).reps = (t.bkt i).reps ∧ ((setEntry t i id f).bkt i).ips = (t.bkt i).ips ∧
    (∀ k, k ≠ i → (setEntry t i id f).bkt k = t.bkt k) := by
  unfold setEntry
  refine ⟨rfl, rfl, by simp, by simp, by simp, ?_⟩
  intro k hk; simp [upd_other _ _ _ _ hk]

/-- rewriting the record of one entry: the invariant holds as long as the counters moved with it -/
theorem setEntry_inv (bo : Nat → Nat) (t0 t : Table) (i : Nat) (hi : i < nBuckets) (hinv : Inv bo t0)
    (n : TNode) (f : TNode → TNode) (hn : n ∈ (t0.bkt i).entries)
    (hfid : ∀ m, m.r.id = n.r.id → (f m).r.id = n.r.id) (hfvalid : (f n).r.addr.valid = true)
    -- `t` differs from `t0` only in the counters, which moved from the old address to the new one
    (hself : t.self = t0.self)
    (hnodes : ∀ k, (t.bkt k).entries = (t0.bkt k).entries ∧ (t.bkt k).reps = (t0.bkt k).reps)
    (hoth : ∀ k, k ≠ i → t.bkt k = t0.bkt k)
    (hcnt : ∀ s, t.ips s + delta n.r.addr s = t0.ips s + delta (f n).r.addr s ∧ t.ips s ≤ tLimit ∧
                 (t.bkt i).ips s + delta n.r.addr s = (t0.bkt i).ips s + delta (f n).r.addr s ∧ (t.bkt i).ips s ≤ bLimit) :
    Inv bo (setEntry t i n.r.id f) := by
  have B := hinv.b i
  obtain ⟨hSs, hSi, hSe, hSr, hSb, hSo⟩ := setEntry_eff t i n.r.id f
  have hndE : ((t0.bkt i).entries.map (·.r.id)).Nodup := by
    have := B.nodup
    simp only [nodes, List.map_append, List.nodup_append] at this
    exact this.1
  have hmap := fun s => real_map_entry (t0.bkt i).entries n f s hn hndE
  refine inv_update bo t0 _ i hi hinv ?_ ?_ ?_ ?_
  · rw [hSs, hself]
  · intro k hk; rw [hSo k hk, hoth k hk]
  · constructor
    · rw [hSe, (hnodes i).1, List.length_map]; exact B.sizeE
    · rw [hSr, (hnodes i).2]; exact B.sizeR
    · intro m hm
      simp only [nodes, hSe, hSr, (hnodes i).1, (hnodes i).2, List.mem_append, List.mem_map] at hm
      rcases hm with ⟨m0, hm0, rfl⟩ | hm
      · have P := B.place m0 (by simp [nodes, hm0])
        split
        · rename_i hid
          have hm0n : m0 = n := nodup_map_inj _ hndE m0 n hm0 hn hid
          subst hm0n
          rw [hfid m0 rfl]; exact ⟨P.1, P.2.1, hfvalid⟩
        · exact P
      · exact B.place m (by simp [nodes, hm])
    · simp only [nodes, hSe, hSr, (hnodes i).1, (hnodes i).2, List.map_append, map_entry_ids _ _ _ hfid]
      have := B.nodup
      simpa [nodes] using this
    · intro s
      have C := B.cnt s
      have H := hcnt s
      have d1 := delta_le_one n.r.addr s
      have d2 := delta_le_one (f n).r.addr s
      have hm := hmap s
      simp only [nodes, hSe, hSr, (hnodes i).1, (hnodes i).2, real_append] at C ⊢
      rw [hSb]
      omega
  · intro s
    have T := hinv.tcnt s
    have H := hcnt s
    have hm := hmap s
    simp only [nodes, hSe, hSr, (hnodes i).1, (hnodes i).2, real_append]
    rw [hSi]
    omega

end Tb

namespace Tb

theorem addIP_other (t : Table) (i : Nat) (a : Addr) (t1 : Table) (h : addIP t i a = (true, t1)) :
    ∀ k, k ≠ i → t1.bkt k = t.bkt k := by
  intro k hk
  obtain ⟨_, _, _, hsame, hc⟩ := addIP_true t i a t1 h
  have e1 := (hsame k).1; have e2 := (hsame k).2
  have e3 : (t1.bkt k).ips = (t.bkt k).ips := by
    rcases hc with ⟨_, _, h⟩ | ⟨_, _, _, _, _, h⟩
    · exact h k
    · exact h k hk
  cases hb1 : t1.bkt k; cases hb2 : t.bkt k
  simp only [hb1, hb2] at e1 e2 e3
  simp [e1, e2, e3]

theorem delta_le_real (l : List TNode) (n : TNode) (s : Nat) (hn : n ∈ l) : delta n.r.addr s ≤ real l s := by
  induction l with
  | nil => simp at hn
  | cons x xs ih =>
    simp only [List.mem_cons] at hn
    rw [real_cons, isIn_delta]
    rcases hn with rfl | hn
    · omega
    · have := ih hn; omega

/-- a table with the same nodes and pointwise equal counters satisfies the invariant too -/
theorem inv_of_same (bo : Nat → Nat) (t0 t : Table) (hinv : Inv bo t0) (hself : t.self = t0.self)
    (hnodes : ∀ k, (t.bkt k).entries = (t0.bkt k).entries ∧ (t.bkt k).reps = (t0.bkt k).reps)
    (hb : ∀ k s, (t.bkt k).ips s = (t0.bkt k).ips s) (ht : ∀ s, t.ips s = t0.ips s) : Inv bo t := by
  constructor
  · intro k
    have B := hinv.b k
    rw [hself]
    constructor
    · rw [(hnodes k).1]; exact B.sizeE
    · rw [(hnodes k).2]; exact B.sizeR
    · intro m hm; simp only [nodes, (hnodes k).1, (hnodes k).2] at hm; exact B.place m hm
    · simp only [nodes, (hnodes k).1, (hnodes k).2]; exact B.nodup
    · intro s; simp only [nodes, (hnodes k).1, (hnodes k).2, hb k s]; exact B.cnt s
  · intro s
    have T := hinv.tcnt s
    have : sumReal t s = sumReal t0 s := by
      simp only [sumReal]
      apply sumTo_congr
      intro k _
      simp only [nodes, (hnodes k).1, (hnodes k).2]
    rw [this, ht s]; exact T

/-- C07/C18: `bumpInBucket` keeps the invariant: a record update moves the /24 counters with the
    address, is refused (and rolled back exactly) when the new address does not fit the limits -/
theorem bump_inv (bo : Nat → Nat) (t : Table) (nr : Rec) (inbound : Bool) (hi : bo nr.id < nBuckets)
    (hinv : Inv bo t) :
    Inv bo (bump t (bo nr.id) nr inbound).1 := by
  unfold bump
  split
  · exact hinv
  · rename_i n hfind
    have hn : n ∈ (t.bkt (bo nr.id)).entries := List.mem_of_find?_eq_some hfind
    have hid : n.r.id = nr.id := by
      have := List.find?_some hfind
      simpa using this
    have B := hinv.b (bo nr.id)
    have hnv : n.r.addr.valid = true := (B.place n (by simp [nodes, hn])).2.2
    have hdr := fun s => delta_le_real (t.bkt (bo nr.id)).entries n s hn
    have hrs := fun s => real_le_sumReal t (bo nr.id) s hi
    split
    · exact hinv
    · split
      · rename_i hchg
        -- address changed
        have hR := removeIP_delta t (bo nr.id) n.r.addr
        obtain ⟨hRs, _, hRsame, hRoth, _⟩ := removeIP_eff t (bo nr.id) n.r.addr
        split
        · -- new address refused: the old one is put back
          rename_i x t' hadd
          -- re-adding the old address succeeds and restores the counters
          cases hre : addIP (removeIP t (bo nr.id) n.r.addr) (bo nr.id) n.r.addr with
          | mk ok t3 =>
            cases ok with
            | false =>
              exfalso
              -- cannot fail: the counters just went down for that very address
              unfold addIP at hre
              simp only [hnv, Bool.not_true, Bool.false_eq_true, if_false] at hre
              split at hre
              · simp at hre
              · rename_i hl
                have hl' : n.r.addr.lan = false := by simpa using hl
                have d1 : delta n.r.addr n.r.addr.subnet = 1 := by simp [delta, hl']
                have T := hinv.tcnt n.r.addr.subnet
                have C := B.cnt n.r.addr.subnet
                have h1 := hdr n.r.addr.subnet
                have h2 := hrs n.r.addr.subnet
                have hR1 := (hR n.r.addr.subnet).1
                have hR2 := (hR n.r.addr.subnet).2
                simp only [nodes, real_append] at C h2
                split at hre
                · split at hre
                  · simp at hre
                  · rename_i hb; rw [hR2] at hb; simp only [bLimit] at C hb; omega
                · rename_i ht; rw [hR1] at ht; simp only [tLimit] at T ht; omega
            | true =>
              simp only
              have hd3 := addIP_delta _ _ _ _ hre
              obtain ⟨_, hs3, _, hsame3, _⟩ := addIP_true _ _ _ _ hre
              have ho3 := addIP_other _ _ _ _ hre
              apply inv_of_same bo t t3 hinv
              · rw [hs3, hRs]
              · intro k; rw [(hsame3 k).1, (hsame3 k).2, (hRsame k).1, (hRsame k).2]; exact ⟨rfl, rfl⟩
              · intro k s
                by_cases hk : k = bo nr.id
                · subst hk
                  rw [(hd3 s).2.1, (hR s).2]
                  have C := B.cnt s
                  have h1 := hdr s
                  simp only [nodes, real_append] at C
                  omega
                · rw [ho3 k hk, hRoth k hk]
              · intro s
                rw [(hd3 s).1, (hR s).1]
                have T := hinv.tcnt s
                have h1 := hdr s
                have h2 := hrs s
                simp only [nodes, real_append] at h2
                omega
        · -- new address accepted
          rename_i x t2 hadd
          simp only
          have hd2 := addIP_delta _ _ _ _ hadd
          obtain ⟨hvalid, hs2, _, hsame2, _⟩ := addIP_true _ _ _ _ hadd
          have ho2 := addIP_other _ _ _ _ hadd
          have key := setEntry_inv bo t t2 (bo nr.id) hi hinv n (fun m => { m with r := nr, live := false }) hn
            (by intro m _; exact hid.symm) hvalid
          rw [hid] at key
          apply key
          · rw [hs2, hRs]
          · intro k; rw [(hsame2 k).1, (hsame2 k).2, (hRsame k).1, (hRsame k).2]; exact ⟨rfl, rfl⟩
          · intro k hk; rw [ho2 k hk, hRoth k hk]
          · intro s
            have T := hinv.tcnt s
            have C := B.cnt s
            have h1 := hdr s
            have h2 := hrs s
            have D := hd2 s
            have d1 := delta_le_one nr.addr s
            simp only [nodes, real_append] at C h2
            rw [D.1, D.2.1, (hR s).1, (hR s).2]
            rw [(hR s).1, (hR s).2] at D
            simp only [tLimit, bLimit] at T C D ⊢
            refine ⟨by omega, ?_, by omega, ?_⟩
            · by_cases hd : delta nr.addr s = 1
              · have := D.2.2 hd; omega
              · omega
            · by_cases hd : delta nr.addr s = 1
              · have := D.2.2 hd; omega
              · omega
      · -- same address: only the record (and possibly the verified flag) changes
        rename_i hsameaddr
        have hsa : nr.addr = n.r.addr := by simpa using hsameaddr
        have hvalid : nr.addr.valid = true := by rw [hsa]; exact hnv
        simp only
        have key := setEntry_inv bo t t (bo nr.id) hi hinv n
          (fun m => { m with r := nr, live := if nr.port ≠ n.r.port then false else m.live }) hn
          (by intro m _; exact hid.symm) hvalid
        rw [hid] at key
        apply key
        · rfl
        · intro k; exact ⟨rfl, rfl⟩
        · intro k _; rfl
        · intro s
          have T := hinv.tcnt s
          have C := B.cnt s
          simp only [hsa]
          exact ⟨trivial, T.2, trivial, C.2⟩

#print axioms bump_inv
end Tb
