import Shisui.Table.Model
namespace Tb

def isIn (s : Nat) (n : TNode) : Bool := !n.r.addr.lan && n.r.addr.subnet == s
def real (l : List TNode) (s : Nat) : Nat := l.countP (isIn s)
def nodes (b : Bucket) : List TNode := b.entries ++ b.reps

structure BInv (bo : Nat → Nat) (me : Nat) (i : Nat) (b : Bucket) : Prop where
  sizeE : b.entries.length ≤ bucketSize
  sizeR : b.reps.length ≤ maxReps
  place : ∀ n ∈ nodes b, bo n.r.id = i ∧ n.r.id ≠ me ∧ n.r.addr.valid = true
  nodup : ((nodes b).map (·.r.id)).Nodup
  cnt : ∀ s, real (nodes b) s ≤ b.ips s ∧ b.ips s ≤ bLimit

def sumTo (n : Nat) (f : Nat → Nat) : Nat := ((List.range n).map f).sum

def sumReal (t : Table) (s : Nat) : Nat := sumTo nBuckets (fun i => real (nodes (t.bkt i)) s)

structure Inv (bo : Nat → Nat) (t : Table) : Prop where
  b : ∀ i, BInv bo t.self i (t.bkt i)
  tcnt : ∀ s, sumReal t s ≤ t.ips s ∧ t.ips s ≤ tLimit

theorem sumTo_succ (n : Nat) (f : Nat → Nat) : sumTo (n+1) f = sumTo n f + f n := by
  simp [sumTo, List.range_succ]

/-- two families that agree except at `i` -/
theorem sumTo_upd (a b : Nat → Nat) (i n : Nat) (h : ∀ k, k ≠ i → a k = b k) (hi : i < n) :
    sumTo n a + b i = sumTo n b + a i := by
  induction n with
  | zero => omega
  | succ n ih =>
    rw [sumTo_succ, sumTo_succ]
    by_cases hin : i = n
    · subst hin
      have : sumTo i a = sumTo i b := by
        clear ih hi
        have : ∀ m, m ≤ i → sumTo m a = sumTo m b := by
          intro m
          induction m with
          | zero => intro _; rfl
          | succ m ihm =>
            intro hm
            rw [sumTo_succ, sumTo_succ, ihm (by omega), h m (by omega)]
        exact this i (Nat.le_refl i)
      omega
    · have := ih (by omega)
      have hn := h n (by omega)
      omega

theorem sumTo_congr (a b : Nat → Nat) (n : Nat) (h : ∀ k, k < n → a k = b k) : sumTo n a = sumTo n b := by
  induction n with
  | zero => rfl
  | succ n ih => rw [sumTo_succ, sumTo_succ, ih (fun k hk => h k (by omega)), h n (by omega)]

@[simp] theorem upd_same (f : Nat → Bucket) (i : Nat) (b : Bucket) : upd f i b i = b := by simp [upd]
theorem upd_other (f : Nat → Bucket) (i k : Nat) (b : Bucket) (h : k ≠ i) : upd f i b k = f k := by simp [upd, h]

@[simp] theorem inc_same (c : Cnt) (s : Nat) : c.inc s s = c s + 1 := by simp [Cnt.inc]
theorem inc_other (c : Cnt) (s k : Nat) (h : k ≠ s) : c.inc s k = c k := by simp [Cnt.inc, h]
@[simp] theorem dec_same (c : Cnt) (s : Nat) : c.dec s s = c s - 1 := by simp [Cnt.dec]
theorem dec_other (c : Cnt) (s k : Nat) (h : k ≠ s) : c.dec s k = c k := by simp [Cnt.dec, h]

end Tb
