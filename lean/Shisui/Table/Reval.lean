import Shisui.Table.Leave
/-! Routing table, composite operations (C07/C18): revalidation answers (`table_reval.go: handleResponse`),
    lookup feedback (`table.go: handleTrackRequest`). They are compositions of the bucket operations whose
    invariant lemmas are in `Bump`, `Delete`, `Add`. -/
namespace Tb

/-- credit after a failed check: `livenessChecks /= 3` -/
def failChecks (m : TNode) : TNode := { m with checks := m.checks / 3 }
/-- after an answered check: `livenessChecks++; isValidatedLive = true` -/
def okChecks (m : TNode) : TNode := { m with checks := m.checks + 1, live := true }

/-- `handleResponse`, node did not respond. `oid` identifies the node *object* the request was started for
    (Go compares pointers: a response for an object that has left the table is dropped, `revalList == nil`). -/
def revalFail (t : Table) (i id oid rnd : Nat) : Table :=
  match (t.bkt i).entries.find? (fun n => n.r.id == id) with
  | none => t
  | some n =>
    if n.oid ≠ oid then t
    else if n.checks / 3 = 0 then deleteInBucket t i id rnd
    else setEntry t i id failChecks

/-- `handleResponse`, node responded, possibly with a newer record (`nr.id = id`: the transport only returns
    the record of the node it asked, distance 0). -/
def revalOk (t : Table) (i id oid : Nat) (newRec : Option Rec) : Table :=
  match (t.bkt i).entries.find? (fun n => n.r.id == id) with
  | none => t
  | some n =>
    if n.oid ≠ oid then t
    else match newRec with
      | none => setEntry t i id okChecks
      | some nr => (bump (setEntry t i id okChecks) i nr false).1

/-- `handleTrackRequest`: `fails` is the consecutive-failure count after this report (0 on success) -/
def trackRequest (bo : Nat → Nat) (t : Table) (id fails rnd : Nat) (found : List Rec) : Table :=
  found.foldl (fun t r => (handleAddNode bo t r false false).1)
    (if fails ≥ 5 ∧ (t.bkt (bo id)).entries.length ≥ bucketSize / 4 then deleteInBucket t (bo id) id rnd else t)

/-- changing only credit / verified flag of an entry keeps the invariant -/
theorem setEntry_keep_inv (bo : Nat → Nat) (t : Table) (i id : Nat) (hi : i < nBuckets) (hinv : Inv bo t)
    (f : TNode → TNode) (hf : ∀ m, (f m).r = m.r)
    (n : TNode) (hfind : (t.bkt i).entries.find? (fun m => m.r.id == id) = some n) :
    Inv bo (setEntry t i id f) := by
  have hn : n ∈ (t.bkt i).entries := List.mem_of_find?_eq_some hfind
  have hid : n.r.id = id := by
    have := List.find?_some hfind
    simpa using this
  have B := hinv.b i
  have hvalid : n.r.addr.valid = true := (B.place n (by simp [nodes, hn])).2.2
  have := setEntry_inv bo t t i hi hinv n f hn (by intro m hm; rw [hf m]; exact hm) (by rw [hf n]; exact hvalid)
    rfl (fun k => ⟨rfl, rfl⟩) (fun k _ => rfl)
    (by intro s; rw [hf n]; exact ⟨rfl, (hinv.tcnt s).2, rfl, (B.cnt s).2⟩)
  rw [hid] at this
  exact this

theorem revalFail_inv (bo : Nat → Nat) (t : Table) (i id oid rnd : Nat) (hi : i < nBuckets) (hinv : Inv bo t) :
    Inv bo (revalFail t i id oid rnd) := by
  unfold revalFail
  split
  · exact hinv
  · rename_i n hfind
    split
    · exact hinv
    · split
      · exact deleteInBucket_inv bo t i id rnd hi hinv
      · exact setEntry_keep_inv bo t i id hi hinv failChecks (fun _ => rfl) n hfind

theorem revalOk_inv (bo : Nat → Nat) (t : Table) (id oid : Nat) (newRec : Option Rec)
    (hi : bo id < nBuckets) (hrec : ∀ nr, newRec = some nr → nr.id = id) (hinv : Inv bo t) :
    Inv bo (revalOk t (bo id) id oid newRec) := by
  unfold revalOk
  split
  · exact hinv
  · rename_i n hfind
    split
    · exact hinv
    · have h1 := setEntry_keep_inv bo t (bo id) id hi hinv okChecks (fun _ => rfl) n hfind
      split
      · exact h1
      · rename_i nr
        have hnr : nr.id = id := hrec nr rfl
        have := bump_inv bo (setEntry t (bo id) id okChecks) nr false (by rw [hnr]; exact hi) h1
        rw [hnr] at this
        exact this

theorem foldAdd_inv (bo : Nat → Nat) (hbo : ∀ id, bo id < nBuckets) (found : List Rec) :
    ∀ t, Inv bo t → Inv bo (found.foldl (fun t r => (handleAddNode bo t r false false).1) t) := by
  induction found with
  | nil => intro t h; exact h
  | cons r rs ih => intro t h; exact ih _ (handleAddNode_inv bo hbo t r false false h)

theorem trackRequest_inv (bo : Nat → Nat) (hbo : ∀ id, bo id < nBuckets) (t : Table) (id fails rnd : Nat)
    (found : List Rec) (hinv : Inv bo t) : Inv bo (trackRequest bo t id fails rnd found) := by
  unfold trackRequest
  apply foldAdd_inv bo hbo
  split
  · exact deleteInBucket_inv bo t (bo id) id rnd (hbo id) hinv
  · exact hinv

/-! ### all operations -/

inductive Op2 where
  | add (r : Rec) (inbound forceLive : Bool)
  | delete (id rnd : Nat)
  | revalFail (id oid rnd : Nat)
  | revalOk (id oid : Nat) (newRec : Option Rec)     -- `newRec`, when present, is a record of node `id`
  | track (id fails rnd : Nat) (found : List Rec)

def Op2.wf : Op2 → Prop
  | .revalOk id _ newRec => ∀ nr, newRec = some nr → nr.id = id
  | _ => True

def step2 (bo : Nat → Nat) (t : Table) : Op2 → Table
  | .add r inb fl => (handleAddNode bo t r inb fl).1
  | .delete id rnd => deleteInBucket t (bo id) id rnd
  | .revalFail id oid rnd => revalFail t (bo id) id oid rnd
  | .revalOk id oid nr => revalOk t (bo id) id oid nr
  | .track id fails rnd found => trackRequest bo t id fails rnd found

theorem step2_inv (bo : Nat → Nat) (hbo : ∀ id, bo id < nBuckets) (t : Table) (op : Op2) (hw : op.wf)
    (hinv : Inv bo t) : Inv bo (step2 bo t op) := by
  cases op with
  | add r inb fl => exact handleAddNode_inv bo hbo t r inb fl hinv
  | delete id rnd => exact deleteInBucket_inv bo t (bo id) id rnd (hbo id) hinv
  | revalFail id oid rnd => exact revalFail_inv bo t (bo id) id oid rnd (hbo id) hinv
  | revalOk id oid nr => exact revalOk_inv bo t id oid nr (hbo id) hw hinv
  | track id fails rnd found => exact trackRequest_inv bo hbo t id fails rnd found hinv

/-- C07 over whole histories: every table reached from the empty one by ANY sequence of additions, deletions,
    revalidation answers and lookup reports satisfies the structural invariant -/
theorem inv_reachable2 (bo : Nat → Nat) (hbo : ∀ id, bo id < nBuckets) (me : Nat) (ops : List Op2)
    (hw : ∀ op ∈ ops, op.wf) : Inv bo (ops.foldl (step2 bo) (emptyTable me)) := by
  suffices h : ∀ t, Inv bo t → Inv bo (ops.foldl (step2 bo) t) from h _ (inv_empty bo me)
  induction ops with
  | nil => intro t h; exact h
  | cons op ops ih =>
    intro t h
    exact ih (fun o ho => hw o (List.mem_cons_of_mem _ ho)) _ (step2_inv bo hbo t op (hw op (List.mem_cons_self ..)) h)

#print axioms inv_reachable2
end Tb
