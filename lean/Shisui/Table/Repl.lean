import Shisui.Table.Delete
namespace Tb

/-- contribution of an address to the counter of subnet `s` -/
def delta (a : Addr) (s : Nat) : Nat := if !a.lan && a.subnet == s then 1 else 0

theorem delta_le_one (a : Addr) (s : Nat) : delta a s ≤ 1 := by unfold delta; split <;> omega

theorem isIn_delta (s : Nat) (n : TNode) : (if isIn s n = true then 1 else 0) = delta n.r.addr s := by
  simp [isIn, delta]

theorem addIP_delta (t : Table) (i : Nat) (a : Addr) (t1 : Table) (h : addIP t i a = (true, t1)) (s : Nat) :
    t1.ips s = t.ips s + delta a s ∧ (t1.bkt i).ips s = (t.bkt i).ips s + delta a s ∧
    (delta a s = 1 → t.ips s < tLimit ∧ (t.bkt i).ips s < bLimit) := by
  obtain ⟨_, _, _, _, hc⟩ := addIP_true t i a t1 h
  rcases hc with ⟨hl, h1, h2⟩ | ⟨hl, h1, h2, h3, h4, _⟩
  · have : delta a s = 0 := by simp [delta, hl]
    rw [this, h1, h2 i]; simp
  · rw [h3, h4]
    by_cases hs : s = a.subnet
    · subst hs
      have : delta a a.subnet = 1 := by simp [delta, hl]
      simp [this, h1, h2]
    · have : delta a s = 0 := by simp [delta]; intro _; exact fun h => hs h.symm
      simp [this, inc_other _ _ _ hs]

theorem removeIP_delta (t : Table) (i : Nat) (a : Addr) (s : Nat) :
    (removeIP t i a).ips s = t.ips s - delta a s ∧ ((removeIP t i a).bkt i).ips s = (t.bkt i).ips s - delta a s := by
  obtain ⟨_, _, _, _, hc⟩ := removeIP_eff t i a
  rcases hc with ⟨hl, h1, h2⟩ | ⟨hl, h1, h2⟩
  · have : delta a s = 0 := by simp [delta, hl]
    rw [this, h1, h2]; simp
  · rw [h1, h2]
    by_cases hs : s = a.subnet
    · subst hs
      have : delta a a.subnet = 1 := by simp [delta, hl]
      simp [this]
    · have : delta a s = 0 := by simp [delta]; intro _; exact fun h => hs h.symm
      simp [this, dec_other _ _ _ hs]

theorem pushNode_spec (l : List TNode) (n : TNode) :
    ((pushNode l n).1 = n :: l ∧ (pushNode l n).2 = none ∧ l.length < maxReps) ∨
    ((pushNode l n).1 = n :: l.dropLast ∧ (pushNode l n).2 = l.getLast? ∧ ¬ l.length < maxReps) := by
  unfold pushNode; split
  · rename_i h; exact Or.inl ⟨rfl, rfl, h⟩
  · rename_i h; exact Or.inr ⟨rfl, rfl, h⟩

theorem hasId_false (l : List TNode) (id : Nat) (h : hasId l id = false) : ∀ n ∈ l, n.r.id ≠ id := by
  intro n hn hid
  have : hasId l id = true := by
    simp only [hasId, List.any_eq_true]
    exact ⟨n, hn, by simpa using hid⟩
  rw [h] at this; simp at this

theorem setReps_eff (t : Table) (i : Nat) (reps : List TNode) :
    (setReps t i reps).self = t.self ∧ (setReps t i reps).ips = t.ips ∧
    ((setReps t i reps).bkt i).entries = (t.bkt i).entries ∧ ((setReps t i reps).bkt i).reps = reps ∧
    ((setReps t i reps).bkt i).ips = (t.bkt i).ips ∧ (∀ k, k ≠ i → (setReps t i reps).bkt k = t.bkt k) := by
  unfold setReps
  refine ⟨rfl, rfl, by simp, by simp, by simp, ?_⟩
  intro k hk; simp [upd_other _ _ _ _ hk]

/-- C07/C18: `addReplacement` (newcomer to a full bucket) keeps the invariant, including when the
    oldest stand-by is pushed out and its address is given back -/
theorem addReplacement_inv (bo : Nat → Nat) (t : Table) (r : Rec) (hi : bo r.id < nBuckets) (hinv : Inv bo t)
    (hself : r.id ≠ t.self) (hnew : ∀ n ∈ (t.bkt (bo r.id)).entries, n.r.id ≠ r.id) :
    Inv bo (addReplacement t (bo r.id) r) := by
  unfold addReplacement
  split
  · exact hinv
  · rename_i hhas
    have hhas' : hasId (t.bkt (bo r.id)).reps r.id = false := by simpa using hhas
    have hnotin := hasId_false _ _ hhas'
    split
    · exact hinv
    · rename_i t1 hadd
      obtain ⟨hvalid, hs, _, hsame, hc⟩ := addIP_true _ _ _ _ hadd
      have hd := addIP_delta _ _ _ _ hadd
      have B := hinv.b (bo r.id)
      have he := (hsame (bo r.id)).1
      have hr := (hsame (bo r.id)).2
      generalize hwdef : mkNode t1.nextOid r 0 false = wn
      have hwr : wn.r = r := by rw [← hwdef]; rfl
      have hwn : ∀ s, (if isIn s wn = true then 1 else 0) = delta r.addr s := fun s => by rw [isIn_delta, hwr]
      have hoth1 : ∀ k, k ≠ bo r.id → t1.bkt k = t.bkt k := by
        intro k hk
        have e1 := (hsame k).1; have e2 := (hsame k).2
        have e3 : (t1.bkt k).ips = (t.bkt k).ips := by
          rcases hc with ⟨_, _, h⟩ | ⟨_, _, _, _, _, h⟩
          · exact h k
          · exact h k hk
        cases hb1 : t1.bkt k; cases hb2 : t.bkt k
        simp only [hb1, hb2] at e1 e2 e3
        simp [e1, e2, e3]
      rcases pushNode_spec (t1.bkt (bo r.id)).reps wn with ⟨hp1, hp2, hlen⟩ | ⟨hp1, hp2, hlen⟩
      · -- room in the replacement list
        simp only [hp1, hp2]
        obtain ⟨hSs, hSi, hSe, hSr, hSb, hSo⟩ := setReps_eff t1 (bo r.id) (wn :: (t1.bkt (bo r.id)).reps)
        generalize setReps t1 (bo r.id) (wn :: (t1.bkt (bo r.id)).reps) = t2 at *
        refine inv_update bo t _ (bo r.id) hi hinv ?_ ?_ ?_ ?_
        · rw [hSs]; exact hs
        · intro k hk; rw [hSo k hk, hoth1 k hk]
        · constructor
          · rw [hSe, he]; exact B.sizeE
          · rw [hSr]; simp only [List.length_cons, hr] at hlen ⊢; omega
          · intro m hm
            simp only [nodes, hSe, hSr, he, hr, List.mem_append, List.mem_cons] at hm
            rcases hm with hm | rfl | hm
            · exact B.place m (by simp [nodes, hm])
            · rw [hwr]; exact ⟨rfl, hself, hvalid⟩
            · exact B.place m (by simp [nodes, hm])
          · simp only [nodes, hSe, hSr, he, hr]
            have nd := B.nodup
            simp only [nodes, List.map_append, List.nodup_append, List.map_cons, List.nodup_cons, hwr] at nd ⊢
            refine ⟨nd.1, ⟨?_, nd.2.1⟩, ?_⟩
            · intro hm
              obtain ⟨m, hm, hid⟩ := List.mem_map.mp hm
              exact hnotin m hm hid
            · intro a ha b hb
              simp only [List.mem_cons] at hb
              rcases hb with rfl | hb
              · obtain ⟨m, hm, rfl⟩ := List.mem_map.mp ha
                exact hnew m hm
              · exact nd.2.2 a ha b hb
          · intro s
            have C := B.cnt s
            have D := hd s
            have := delta_le_one r.addr s
            simp only [nodes, hSe, hSr, he, hr, real_append, real_cons, hwn] at C ⊢
            rw [hSb, D.2.1]
            simp only [bLimit] at C D ⊢
            omega
        · intro s
          have T := hinv.tcnt s
          have D := hd s
          have := delta_le_one r.addr s
          simp only [nodes, hSe, hSr, he, hr, real_append, real_cons, hwn]
          rw [hSi, D.1]
          simp only [tLimit] at T D ⊢
          omega
      · -- list full: the oldest stand-by goes
        simp only [hp1, hp2]
        have hlen10 : (t.bkt (bo r.id)).reps.length = maxReps := by
          have := B.sizeR; rw [hr] at hlen; omega
        cases hlast : (t1.bkt (bo r.id)).reps.getLast? with
        | none =>
          rw [hr] at hlast
          have : (t.bkt (bo r.id)).reps = [] := by simpa using hlast
          rw [this] at hlen10; simp [maxReps] at hlen10
        | some rm =>
          simp only
          rw [hr] at hlast
          have hdl := fun s => real_dropLast (t.bkt (bo r.id)).reps s
          simp only [hlast, isIn_delta] at hdl
          obtain ⟨hSs, hSi, hSe, hSr, hSb, hSo⟩ := setReps_eff t1 (bo r.id) (wn :: (t1.bkt (bo r.id)).reps.dropLast)
          generalize setReps t1 (bo r.id) (wn :: (t1.bkt (bo r.id)).reps.dropLast) = t2 at *
          have hR := removeIP_delta t2 (bo r.id) rm.r.addr
          obtain ⟨hRs, _, hRsame, hRoth, _⟩ := removeIP_eff t2 (bo r.id) rm.r.addr
          refine inv_update bo t _ (bo r.id) hi hinv ?_ ?_ ?_ ?_
          · rw [hRs, hSs]; exact hs
          · intro k hk
            rw [hRoth k hk, hSo k hk, hoth1 k hk]
          · constructor
            · rw [(hRsame _).1, hSe, he]; exact B.sizeE
            · rw [(hRsame _).2, hSr, hr]
              simp only [List.length_cons, List.length_dropLast]
              simp only [maxReps] at hlen10 ⊢; omega
            · intro m hm
              simp only [nodes, (hRsame _).1, (hRsame _).2, hSe, hSr, he, hr, List.mem_append, List.mem_cons] at hm
              rcases hm with hm | rfl | hm
              · exact B.place m (by simp [nodes, hm])
              · rw [hwr]; exact ⟨rfl, hself, hvalid⟩
              · exact B.place m (by simp [nodes, ((List.dropLast_sublist _).subset hm)])
            · simp only [nodes, (hRsame _).1, (hRsame _).2, hSe, hSr, he, hr]
              have nd := B.nodup
              simp only [nodes, List.map_append, List.nodup_append, List.map_cons, List.nodup_cons, hwr] at nd ⊢
              refine ⟨nd.1, ⟨?_, ?_⟩, ?_⟩
              · intro hm
                obtain ⟨m, hm, hid⟩ := List.mem_map.mp hm
                exact hnotin m (((List.dropLast_sublist _).subset hm)) hid
              · exact List.Nodup.sublist (List.Sublist.map _ (List.dropLast_sublist _)) nd.2.1
              · intro a ha b hb
                simp only [List.mem_cons] at hb
                rcases hb with rfl | hb
                · obtain ⟨m, hm, rfl⟩ := List.mem_map.mp ha
                  exact hnew m hm
                · apply nd.2.2 a ha b
                  obtain ⟨m, hm, rfl⟩ := List.mem_map.mp hb
                  exact List.mem_map.mpr ⟨m, ((List.dropLast_sublist _).subset hm), rfl⟩
            · intro s
              have C := B.cnt s
              have D := hd s
              have d1 := delta_le_one r.addr s
              have d2 := delta_le_one rm.r.addr s
              have hdls := hdl s
              simp only [nodes, (hRsame _).1, (hRsame _).2, hSe, hSr, he, hr, real_append, real_cons, hwn] at C ⊢
              rw [(hR s).2, hSb, D.2.1]
              simp only [bLimit] at C D ⊢
              omega
          · intro s
            have T := hinv.tcnt s
            have D := hd s
            have d1 := delta_le_one r.addr s
            have d2 := delta_le_one rm.r.addr s
            have hdls := hdl s
            have hle := real_le_sumReal t (bo r.id) s hi
            simp only [nodes, (hRsame _).1, (hRsame _).2, hSe, hSr, he, hr, real_append, real_cons, hwn] at hle ⊢
            rw [(hR s).1, hSi, D.1]
            simp only [tLimit] at T D ⊢
            omega

#print axioms addReplacement_inv
end Tb
