import Shisui.Table.Ops
namespace Tb

theorem le_sumTo (f : Nat → Nat) (n i : Nat) (h : i < n) : f i ≤ sumTo n f := by
  induction n with
  | zero => omega
  | succ n ih =>
    rw [sumTo_succ]
    by_cases hi : i = n
    · subst hi; omega
    · have := ih (by omega); omega

theorem real_le_sumReal (t : Table) (i s : Nat) (h : i < nBuckets) : real (nodes (t.bkt i)) s ≤ sumReal t s :=
  le_sumTo (fun k => real (nodes (t.bkt k)) s) nBuckets i h

/-- removing an entry (and giving its address back) keeps the invariant -/
theorem removeEntry_inv (bo : Nat → Nat) (t : Table) (i : Nat) (hi : i < nBuckets) (hinv : Inv bo t)
    (n : TNode) (hn : n ∈ (t.bkt i).entries) :
    let t1 : Table := { t with bkt := upd t.bkt i { t.bkt i with entries := (t.bkt i).entries.filter (fun m => m.r.id != n.r.id) } }
    Inv bo (removeIP t1 i n.r.addr) ∧
    ((removeIP t1 i n.r.addr).bkt i).entries.length < bucketSize ∧
    ((removeIP t1 i n.r.addr).bkt i).reps = (t.bkt i).reps := by
  intro t1
  have B := hinv.b i
  have E := removeIP_eff t1 i n.r.addr
  obtain ⟨hs, _, hsame, hoth, hcnt⟩ := E
  have he : ((removeIP t1 i n.r.addr).bkt i).entries = (t.bkt i).entries.filter (fun m => m.r.id != n.r.id) := by
    rw [(hsame i).1]; simp [t1]
  have hr : ((removeIP t1 i n.r.addr).bkt i).reps = (t.bkt i).reps := by
    rw [(hsame i).2]; simp [t1]
  have hndE : ((t.bkt i).entries.map (·.r.id)).Nodup := by
    have := B.nodup
    simp only [nodes, List.map_append, List.nodup_append] at this
    exact this.1
  have hrem := fun s => real_remove (t.bkt i).entries n s hn hndE
  have hlt : ((t.bkt i).entries.filter (fun m => m.r.id != n.r.id)).length < (t.bkt i).entries.length := by
    apply List.length_filter_lt_length_iff_exists.mpr
    exact ⟨n, hn, by simp⟩
  refine ⟨?_, ?_, hr⟩
  · apply inv_update bo t _ i hi hinv hs
    · intro k hk
      rw [hoth k hk]; simp [t1, upd_other _ _ _ _ hk]
    · constructor
      · rw [he]; exact Nat.le_trans (List.length_filter_le _ _) B.sizeE
      · rw [hr]; exact B.sizeR
      · intro m hm
        simp only [nodes, he, hr, List.mem_append, List.mem_filter] at hm
        apply B.place m
        simp only [nodes, List.mem_append]
        rcases hm with hm | hm
        · exact Or.inl hm.1
        · exact Or.inr hm
      · simp only [nodes, he, hr]
        have nd := B.nodup
        simp only [nodes, List.map_append, List.nodup_append] at nd ⊢
        refine ⟨List.Nodup.sublist (List.Sublist.map _ List.filter_sublist) nd.1, nd.2.1, ?_⟩
        intro a ha b hb
        apply nd.2.2 a _ b hb
        simp only [List.mem_map, List.mem_filter] at ha ⊢
        obtain ⟨m, hm, rfl⟩ := ha
        exact ⟨m, hm.1, rfl⟩
      · intro s
        have C := B.cnt s
        simp only [nodes, he, hr, real_append] at C ⊢
        have hrs := hrem s
        rcases hcnt with ⟨hl, _, hb⟩ | ⟨hl, _, hb⟩
        · have : isIn s n = false := by simp [isIn, hl]
          simp only [this] at hrs
          rw [hb]; simp [t1]
          simp at hrs
          omega
        · rw [hb]
          simp only [t1, upd_same]
          by_cases hs' : s = n.r.addr.subnet
          · subst hs'
            have : isIn n.r.addr.subnet n = true := by simp [isIn, hl]
            simp only [this, if_true] at hrs
            simp only [dec_same]
            omega
          · have : isIn s n = false := by simp [isIn]; intro _; exact fun h => hs' h.symm
            simp only [this] at hrs
            simp only [dec_other _ _ _ hs']
            simp at hrs
            omega
    · intro s
      have T := hinv.tcnt s
      have hle := real_le_sumReal t i s hi
      simp only [nodes, he, hr, real_append] at hle ⊢
      have hrs := hrem s
      rcases hcnt with ⟨hl, hips, _⟩ | ⟨hl, hips, _⟩
      · have : isIn s n = false := by simp [isIn, hl]
        simp only [this] at hrs
        rw [hips]; simp only [t1]
        simp at hrs
        omega
      · rw [hips]; simp only [t1]
        by_cases hs' : s = n.r.addr.subnet
        · subst hs'
          have : isIn n.r.addr.subnet n = true := by simp [isIn, hl]
          simp only [this, if_true] at hrs
          simp only [dec_same]
          omega
        · have : isIn s n = false := by simp [isIn]; intro _; exact fun h => hs' h.symm
          simp only [this] at hrs
          simp only [dec_other _ _ _ hs']
          simp at hrs
          omega
  · rw [he]
    have := B.sizeE
    omega

end Tb

namespace Tb

theorem getElem?_split {α} (l : List α) (j : Nat) (x : α) (h : l[j]? = some x) :
    l = l.take j ++ x :: l.drop (j + 1) ∧ l.eraseIdx j = l.take j ++ l.drop (j + 1) := by
  induction l generalizing j with
  | nil => simp at h
  | cons y ys ih =>
    cases j with
    | zero => simp at h; subst h; simp
    | succ j =>
      simp only [List.getElem?_cons_succ] at h
      obtain ⟨h1, h2⟩ := ih j h
      constructor
      · simp only [List.take_succ_cons, List.cons_append, List.drop_succ_cons]
        congr 1
      · simp only [List.eraseIdx_cons_succ, List.take_succ_cons, List.cons_append, List.drop_succ_cons]
        congr 1

/-- moving a replacement into the entries (the promotion in `deleteInBucket`) keeps the invariant -/
theorem promote_inv (bo : Nat → Nat) (t : Table) (i : Nat) (hi : i < nBuckets) (hinv : Inv bo t)
    (j : Nat) (rep : TNode) (hj : (t.bkt i).reps[j]? = some rep) (hroom : (t.bkt i).entries.length < bucketSize) :
    Inv bo { t with bkt := upd t.bkt i { t.bkt i with entries := (t.bkt i).entries ++ [rep],
                                                       reps := (t.bkt i).reps.eraseIdx j } } := by
  have B := hinv.b i
  obtain ⟨hsplit, herase⟩ := getElem?_split (t.bkt i).reps j rep hj
  -- the node population of the bucket is a permutation of the old one
  have hperm : ((t.bkt i).entries ++ [rep] ++ (t.bkt i).reps.eraseIdx j).Perm ((t.bkt i).entries ++ (t.bkt i).reps) := by
    rw [herase]
    conv => rhs; rw [hsplit]
    rw [List.append_assoc]
    apply List.Perm.append_left
    simp only [List.singleton_append]
    exact (List.perm_middle).symm
  refine inv_update bo t _ i hi hinv ?_ ?_ ?_ ?_
  · rfl
  · intro k hk; simp [upd_other _ _ _ _ hk]
  · simp only [upd_same]
    constructor
    · simp only [List.length_append, List.length_singleton]; omega
    · rw [herase]
      have : (t.bkt i).reps.length = ((t.bkt i).reps.take j ++ rep :: (t.bkt i).reps.drop (j + 1)).length := by
        rw [← hsplit]
      simp only [List.length_append, List.length_cons] at this ⊢
      have := B.sizeR
      omega
    · intro m hm
      exact B.place m ((hperm.mem_iff).mp (by simpa [nodes] using hm))
    · simp only [nodes]
      exact (List.Perm.nodup_iff (hperm.map _)).mpr B.nodup
    · intro s
      have C := B.cnt s
      simp only [nodes, real] at C ⊢
      rw [hperm.countP_eq]
      exact C
  · intro s
    simp only [upd_same, nodes, real]
    rw [hperm.countP_eq]
    exact ⟨Nat.le_refl _, (hinv.tcnt s).2⟩

/-- C07: `deleteInBucket` keeps the invariant, whatever replacement the random source picks -/
theorem deleteInBucket_inv (bo : Nat → Nat) (t : Table) (i id rnd : Nat) (hi : i < nBuckets) (hinv : Inv bo t) :
    Inv bo (deleteInBucket t i id rnd) := by
  unfold deleteInBucket
  simp only
  split
  · exact hinv
  · rename_i n hfind
    have hn : n ∈ (t.bkt i).entries := List.mem_of_find?_eq_some hfind
    have hid : n.r.id = id := by
      have := List.find?_some hfind
      simpa using this
    subst hid
    obtain ⟨h2, hroom, hreps⟩ := removeEntry_inv bo t i hi hinv n hn
    simp only at h2 hroom hreps
    split
    · exact h2
    · rename_i rep hrep
      exact promote_inv bo _ i hi h2 _ rep hrep hroom

#print axioms deleteInBucket_inv
end Tb
