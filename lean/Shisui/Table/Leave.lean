import Shisui.Table.Policy
namespace Tb

/-- ids of the entries of bucket `k` -/
def entryIds (t : Table) (k : Nat) : List Nat := (t.bkt k).entries.map (·.r.id)

theorem setEntry_ids (t : Table) (i id : Nat) (f : TNode → TNode) (hf : ∀ m, m.r.id = id → (f m).r.id = id) (k : Nat) :
    entryIds (setEntry t i id f) k = entryIds t k := by
  obtain ⟨_, _, hSe, _, _, hSo⟩ := setEntry_eff t i id f
  unfold entryIds
  by_cases hk : k = i
  · subst hk; rw [hSe, map_entry_ids _ _ _ hf]
  · rw [hSo k hk]

theorem bump_ids (t : Table) (i : Nat) (nr : Rec) (inb : Bool) (k : Nat) :
    entryIds (bump t i nr inb).1 k = entryIds t k := by
  unfold bump
  split
  · rfl
  · rename_i n hfind
    have hid : n.r.id = nr.id := by
      have := List.find?_some hfind
      simpa using this
    split
    · rfl
    · split
      · split
        · unfold entryIds
          rw [(addIP_entries _ i n.r.addr k).1, ((removeIP_eff t i n.r.addr).2.2.1 k).1]
        · rename_i x t2 hadd
          simp only
          rw [setEntry_ids t2 i nr.id _ (by intro m _; rfl) k]
          unfold entryIds
          rw [((addIP_true _ _ _ _ hadd).2.2.2.1 k).1, ((removeIP_eff t i n.r.addr).2.2.1 k).1]
      · simp only
        exact setEntry_ids t i nr.id _ (by intro m _; rfl) k

/-- C18: no addition — found, inbound, seed or lookup feedback, into a full bucket or not — ever removes
    an entry: every id that was an entry of a bucket still is one afterwards. Entries leave only
    through `deleteInBucket`, i.e. exhausted liveness credit, repeated find failures, or explicit deletion. -/
theorem add_never_displaces (bo : Nat → Nat) (t : Table) (r : Rec) (inb fl : Bool) (k : Nat) :
    ∀ id ∈ entryIds t k, id ∈ entryIds (handleAddNode bo t r inb fl).1 k := by
  intro id hid
  unfold handleAddNode
  split
  · exact hid
  · split
    · exact hid
    · split
      · rename_i t' hb
        have := bump_ids t (bo r.id) r inb k
        rw [hb] at this
        rw [this]; exact hid
      · unfold addNew
        simp only
        split
        · -- full bucket: replacement list only
          unfold entryIds at hid ⊢
          by_cases hk : k = bo r.id
          · subst hk; rw [(full_bucket_newcomer t (bo r.id) r).1]; exact hid
          · -- other buckets untouched
            have : ((addReplacement t (bo r.id) r).bkt k).entries = (t.bkt k).entries := by
              unfold addReplacement
              split
              · rfl
              · split
                · rfl
                · rename_i t1 hadd
                  have h1 := ((addIP_true _ _ _ _ hadd).2.2.2.1 k).1
                  split
                  · rw [(setReps_eff t1 (bo r.id) _).2.2.2.2.2 k hk]; exact h1
                  · rename_i rm _
                    rw [((removeIP_eff _ (bo r.id) rm.r.addr).2.2.1 k).1, (setReps_eff t1 (bo r.id) _).2.2.2.2.2 k hk]
                    exact h1
            rw [this]; exact hid
        · split
          · exact hid
          · rename_i t1 hadd
            unfold entryIds at hid ⊢
            simp only
            have h1 := ((addIP_true _ _ _ _ hadd).2.2.2.1 k).1
            by_cases hk : k = bo r.id
            · subst hk
              simp only [upd_same, List.map_append, List.mem_append]
              left; rw [h1]; exact hid
            · simp only [upd_other _ _ _ _ hk]; rw [h1]; exact hid

#print axioms add_never_displaces
end Tb
