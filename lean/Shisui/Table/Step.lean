import Shisui.Table.Inv
namespace Tb

theorem addIP_false (t : Table) (i : Nat) (a : Addr) (t1 : Table) (h : addIP t i a = (false, t1)) : t1 = t := by
  unfold addIP at h
  split at h
  · simp_all
  · split at h
    · simp_all
    · split at h
      · split at h <;> simp_all
      · simp_all

/-- what a successful `addIP` does -/
theorem addIP_true (t : Table) (i : Nat) (a : Addr) (t1 : Table) (h : addIP t i a = (true, t1)) :
    a.valid = true ∧ t1.self = t.self ∧ t1.nextOid = t.nextOid ∧
    (∀ k, (t1.bkt k).entries = (t.bkt k).entries ∧ (t1.bkt k).reps = (t.bkt k).reps) ∧
    ((a.lan = true ∧ t1.ips = t.ips ∧ ∀ k, (t1.bkt k).ips = (t.bkt k).ips) ∨
     (a.lan = false ∧ t.ips a.subnet < tLimit ∧ (t.bkt i).ips a.subnet < bLimit ∧
      t1.ips = t.ips.inc a.subnet ∧ (t1.bkt i).ips = (t.bkt i).ips.inc a.subnet ∧
      ∀ k, k ≠ i → (t1.bkt k).ips = (t.bkt k).ips)) := by
  unfold addIP at h
  split at h
  · simp at h
  · rename_i hv
    have hv' : a.valid = true := by simpa using hv
    split at h
    · rename_i hl
      simp at h; subst h
      exact ⟨hv', rfl, rfl, fun k => ⟨rfl, rfl⟩, Or.inl ⟨hl, rfl, fun k => rfl⟩⟩
    · rename_i hl
      split at h
      · rename_i ht
        split at h
        · rename_i hb
          simp at h; subst h
          refine ⟨hv', rfl, rfl, ?_, Or.inr ⟨by simpa using hl, ht, hb, rfl, by simp, ?_⟩⟩
          · intro k
            by_cases hk : k = i
            · subst hk; simp
            · simp [upd_other _ _ _ _ hk]
          · intro k hk; simp [upd_other _ _ _ _ hk]
        · simp at h
      · simp at h

theorem real_append (l1 l2 : List TNode) (s : Nat) : real (l1 ++ l2) s = real l1 s + real l2 s := by
  simp [real, List.countP_append]

theorem real_filter_le (l : List TNode) (p : TNode → Bool) (s : Nat) : real (l.filter p) s ≤ real l s := by
  unfold real
  rw [List.countP_filter]
  apply List.countP_mono_left
  intro x _ hx
  simp at hx
  exact hx.1

theorem real_single (n : TNode) (s : Nat) : real [n] s = if isIn s n then 1 else 0 := by
  simp [real, List.countP_cons]

theorem isIn_subnet (s : Nat) (n : TNode) (h : isIn s n = true) : n.r.addr.lan = false ∧ n.r.addr.subnet = s := by
  simpa [isIn] using h


/-- changing one bucket changes the table-wide real count by at most the change in that bucket -/
theorem sumReal_le_of_upd (t t' : Table) (i s d : Nat)
    (hoth : ∀ k, k ≠ i → nodes (t'.bkt k) = nodes (t.bkt k))
    (hi : real (nodes (t'.bkt i)) s ≤ real (nodes (t.bkt i)) s + d)
    (hr : i < nBuckets) : sumReal t' s ≤ sumReal t s + d := by
  have := sumTo_upd (fun k => real (nodes (t'.bkt k)) s) (fun k => real (nodes (t.bkt k)) s) i nBuckets
    (by intro k hk; simp only [hoth k hk]) hr
  have h2 : sumTo nBuckets (fun k => real (nodes (t'.bkt k)) s) + real (nodes (t.bkt i)) s
      = sumTo nBuckets (fun k => real (nodes (t.bkt k)) s) + real (nodes (t'.bkt i)) s := this
  simp only [sumReal]
  omega

/-- inserting a fresh entry after a successful `addIP` keeps the invariant -/
theorem addNew_inv (bo : Nat → Nat) (t : Table) (r : Rec) (fl : Bool)
    (hinv : Inv bo t) (hself : r.id ≠ t.self) (hrange : bo r.id < nBuckets)
    (hnew : ∀ n ∈ (t.bkt (bo r.id)).entries, n.r.id ≠ r.id)
    (hfull : ¬ (t.bkt (bo r.id)).entries.length ≥ bucketSize) :
    Inv bo (addNew bo t r fl).1 := by
  unfold addNew
  simp only [hfull, if_false]
  split
  · exact hinv
  · rename_i t1 hadd
    obtain ⟨hvalid, hs, _, hsame, hcnt⟩ := addIP_true _ _ _ _ hadd
    constructor
    · -- per bucket
      intro k
      by_cases hk : k = bo r.id
      · subst hk
        have B := hinv.b (bo r.id)
        simp only [upd_same]
        have he := (hsame (bo r.id)).1
        have hr := (hsame (bo r.id)).2
        constructor
        · simp only [List.length_append, List.length_singleton, he]
          simp only [bucketSize] at hfull ⊢; omega
        · simp only [hr]
          exact Nat.le_trans (List.length_filter_le _ _) B.sizeR
        · intro n hn
          simp only [nodes, he, hr, List.mem_append, List.mem_singleton, List.mem_filter] at hn
          rcases hn with (hn | hn) | hn
          · simpa [hs] using B.place n (by simp [nodes, hn])
          · subst hn; simp [hs, hself, hvalid]
          · simpa [hs] using B.place n (by simp [nodes, hn.1])
        · -- nodup
          simp only [nodes, he, hr]
          have nd := B.nodup
          simp only [nodes, List.map_append, List.nodup_append] at nd ⊢
          obtain ⟨nd1, nd2, nd3⟩ := nd
          refine ⟨?_, ?_, ?_⟩
          · refine ⟨nd1, by simp, ?_⟩
            intro a ha b hb
            simp at ha hb
            obtain ⟨n, hn, rfl⟩ := ha
            subst hb
            exact hnew n hn
          · exact List.Nodup.sublist (List.Sublist.map _ List.filter_sublist) nd2
          · intro a ha b hb
            simp only [List.map_cons, List.map_nil, List.mem_append, List.mem_map, List.mem_singleton,
              List.mem_filter] at ha hb
            obtain ⟨m, ⟨hm, hmid⟩, rfl⟩ := hb
            rcases ha with ⟨n, hn, rfl⟩ | rfl
            · exact nd3 _ (List.mem_map.mpr ⟨n, hn, rfl⟩) _ (List.mem_map.mpr ⟨m, hm, rfl⟩)
            · intro h; simp at hmid; exact hmid h.symm
        · -- counts
          intro s
          have C := B.cnt s
          simp only [nodes, he, hr, real_append, real_single]
          have hf := real_filter_le (t.bkt (bo r.id)).reps (fun n => n.r.id != r.id) s
          simp only [nodes, real_append] at C
          rcases hcnt with ⟨hl, _, hb⟩ | ⟨hl, _, hblt, _, hbi, _⟩
          · have : isIn s ({ oid := t1.nextOid, r := r, checks := if fl = true then 1 else 0, live := fl } : TNode) = false := by
              simp [isIn, hl]
            simp only [this, hb]
            simp; omega
          · simp only [hbi]
            by_cases hs' : s = r.addr.subnet
            · subst hs'
              simp only [inc_same]
              simp only [bLimit] at hblt ⊢
              by_cases hi : isIn r.addr.subnet ({ oid := t1.nextOid, r := r, checks := if fl = true then 1 else 0, live := fl } : TNode) = true
              · simp only [hi, if_true]; omega
              · simp only [hi]; simp; omega
            · have : isIn s ({ oid := t1.nextOid, r := r, checks := if fl = true then 1 else 0, live := fl } : TNode) = false := by
                simp [isIn]; intro _; exact fun h => hs' h.symm
              simp only [this, inc_other _ _ _ hs']
              simp; omega
      · have B := hinv.b k
        simp only [upd_other _ _ _ _ hk]
        have he := (hsame k).1
        have hr := (hsame k).2
        constructor
        · rw [he]; exact B.sizeE
        · rw [hr]; exact B.sizeR
        · intro n hn; simp only [nodes, he, hr] at hn; simpa [hs] using B.place n hn
        · simp only [nodes, he, hr]; exact B.nodup
        · intro s
          simp only [nodes, he, hr]
          have C := B.cnt s
          rcases hcnt with ⟨_, _, hb⟩ | ⟨_, _, _, _, _, hb⟩
          · rw [hb k]; exact C
          · rw [hb k hk]; exact C
    · -- table-wide
      intro s
      have T := hinv.tcnt s
      have he := (hsame (bo r.id)).1
      have hr := (hsame (bo r.id)).2
      let wn : TNode := { oid := t1.nextOid, r := r, checks := if fl = true then 1 else 0, live := fl }
      have hstep := sumReal_le_of_upd t
        { t1 with nextOid := t1.nextOid + 1,
                  bkt := upd t1.bkt (bo r.id)
                    { t1.bkt (bo r.id) with entries := (t1.bkt (bo r.id)).entries ++ [wn],
                                            reps := (t1.bkt (bo r.id)).reps.filter (fun n => n.r.id != r.id) } }
        (bo r.id) s (if isIn s wn then 1 else 0)
        (by intro k hk; simp only [upd_other _ _ _ _ hk, nodes, (hsame k).1, (hsame k).2])
        (by
          simp only [upd_same, nodes, he, hr, real_append, real_single]
          have hf := real_filter_le (t.bkt (bo r.id)).reps (fun n => n.r.id != r.id) s
          omega)
        hrange
      rcases hcnt with ⟨hl, hips, _⟩ | ⟨hl, htlt, _, hips, _, _⟩
      · have hno : isIn s wn = false := by simp [isIn, wn, hl]
        simp only [hno] at hstep
        simp at hstep
        have h1 : sumReal t s ≤ t1.ips s := by rw [hips]; exact T.1
        have h2 : t1.ips s ≤ tLimit := by rw [hips]; exact T.2
        exact ⟨Nat.le_trans hstep h1, h2⟩
      · by_cases hs' : s = r.addr.subnet
        · subst hs'
          have hv : t1.ips r.addr.subnet = t.ips r.addr.subnet + 1 := by rw [hips]; simp
          have hle : (if isIn r.addr.subnet wn = true then 1 else 0) ≤ 1 := by split <;> omega
          have h1 : sumReal t r.addr.subnet + (if isIn r.addr.subnet wn = true then 1 else 0) ≤ t1.ips r.addr.subnet := by
            have := T.1; omega
          have h2 : t1.ips r.addr.subnet ≤ tLimit := by omega
          exact ⟨Nat.le_trans hstep h1, h2⟩
        · have hno : isIn s wn = false := by
            simp [isIn, wn]; intro _; exact fun h => hs' h.symm
          simp only [hno] at hstep
          simp at hstep
          have hv : t1.ips s = t.ips s := by rw [hips]; exact inc_other _ _ _ hs'
          have h1 : sumReal t s ≤ t1.ips s := by rw [hv]; exact T.1
          have h2 : t1.ips s ≤ tLimit := by rw [hv]; exact T.2
          exact ⟨Nat.le_trans hstep h1, h2⟩

end Tb
