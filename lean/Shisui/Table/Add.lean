import Shisui.Table.Bump
namespace Tb

theorem bump_notfound (t : Table) (i : Nat) (nr : Rec) (inb : Bool) (t' : Table)
    (h : bump t i nr inb = (t', false)) : ∀ n ∈ (t.bkt i).entries, n.r.id ≠ nr.id := by
  unfold bump at h
  split at h
  · rename_i hnone
    intro n hn hid
    have := List.find?_eq_none.mp hnone n hn
    simp [hid] at this
  · split at h
    · simp at h
    · split at h
      · split at h <;> simp at h
      · simp at h

/-- C07: `handleAddNode` — every way a node can enter the table (found, inbound, seed, lookup feedback) —
    keeps all structural invariants -/
theorem handleAddNode_inv (bo : Nat → Nat) (hbo : ∀ id, bo id < nBuckets) (t : Table) (r : Rec)
    (inbound forceLive : Bool) (hinv : Inv bo t) :
    Inv bo (handleAddNode bo t r inbound forceLive).1 := by
  unfold handleAddNode
  split
  · exact hinv
  · rename_i hself
    split
    · exact hinv
    · split
      · rename_i t' hb
        have := bump_inv bo t r inbound (hbo r.id) hinv
        rw [hb] at this
        exact this
      · rename_i t' hb
        have hnew := bump_notfound _ _ _ _ _ hb
        by_cases hfull : (t.bkt (bo r.id)).entries.length ≥ bucketSize
        · unfold addNew
          simp only [hfull, if_true]
          exact addReplacement_inv bo t r (hbo r.id) hinv hself hnew
        · exact addNew_inv bo t r forceLive hinv hself (hbo r.id) hnew hfull

/-- C07 over whole histories: any sequence of additions and deletions from the empty table -/
inductive Op where
  | add (r : Rec) (inbound forceLive : Bool)
  | delete (id rnd : Nat)

def step (bo : Nat → Nat) (t : Table) : Op → Table
  | .add r inb fl => (handleAddNode bo t r inb fl).1
  | .delete id rnd => deleteInBucket t (bo id) id rnd

def emptyTable (me : Nat) : Table :=
  { self := me, bkt := fun _ => { entries := [], reps := [], ips := fun _ => 0 }, ips := fun _ => 0,
    nextOid := 0, initDone := true }

theorem sumTo_zero (n : Nat) : sumTo n (fun _ => 0) = 0 := by
  induction n with
  | zero => rfl
  | succ n ih => rw [sumTo_succ, ih]

theorem inv_empty (bo : Nat → Nat) (me : Nat) : Inv bo (emptyTable me) := by
  constructor
  · intro i
    constructor <;> simp [emptyTable, nodes, real, bucketSize, maxReps]
  · intro s
    simp only [sumReal, emptyTable, nodes, real, List.append_nil, List.countP_nil]
    rw [sumTo_zero]; simp

theorem inv_reachable (bo : Nat → Nat) (hbo : ∀ id, bo id < nBuckets) (me : Nat) (ops : List Op) :
    Inv bo (ops.foldl (step bo) (emptyTable me)) := by
  suffices h : ∀ t, Inv bo t → Inv bo (ops.foldl (step bo) t) from h _ (inv_empty bo me)
  induction ops with
  | nil => intro t h; exact h
  | cons op ops ih =>
    intro t h
    apply ih
    cases op with
    | add r inb fl => exact handleAddNode_inv bo hbo t r inb fl h
    | delete id rnd => exact deleteInBucket_inv bo t (bo id) id rnd (hbo id) h

/-- what the invariant says in the words of the property -/
theorem inv_meaning (bo : Nat → Nat) (t : Table) (h : Inv bo t) (i : Nat) :
    (t.bkt i).entries.length ≤ 16 ∧ (t.bkt i).reps.length ≤ 10 ∧
    (∀ n ∈ (t.bkt i).entries ++ (t.bkt i).reps, bo n.r.id = i ∧ n.r.id ≠ t.self) ∧
    (((t.bkt i).entries ++ (t.bkt i).reps).map (·.r.id)).Nodup ∧
    (∀ s, real ((t.bkt i).entries ++ (t.bkt i).reps) s ≤ 2) ∧ (∀ s, sumReal t s ≤ 10) := by
  have B := h.b i
  refine ⟨B.sizeE, B.sizeR, fun n hn => ⟨(B.place n hn).1, (B.place n hn).2.1⟩, B.nodup, ?_, ?_⟩
  · intro s; have := B.cnt s; simp only [nodes, bLimit] at this; omega
  · intro s; have := h.tcnt s; simp only [tLimit] at this; omega

#print axioms inv_reachable
end Tb
