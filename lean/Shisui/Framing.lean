/-! C15 prototype: content stream framing (encode/decodeSingleContent, encode/decodeContents). -/
namespace Fr

def enc (v : Nat) : List Nat :=
  if h : v < 128 then [v] else (v % 128 + 128) :: enc (v / 128)
termination_by v
decreasing_by omega

def decAux (i s acc : Nat) : List Nat → Option (Nat × Nat)
  | [] => none
  | b :: rest =>
    if i ≥ 5 then none
    else if b < 128 then
      if i = 4 ∧ b ≥ 16 then none
      else some (acc + b * 2 ^ s, i + 1)
    else decAux (i+1) (s+7) (acc + (b % 128) * 2 ^ s) rest

def dec (l : List Nat) : Option (Nat × Nat) := decAux 0 0 0 l

theorem decAux_enc (v : Nat) : ∀ (i s acc : Nat) (rest : List Nat),
    i ≤ 4 → v < 2 ^ (32 - 7 * i) →
    decAux i s acc (enc v ++ rest) = some (acc + v * 2 ^ s, i + (enc v).length) := by
  induction v using Nat.strongRecOn with
  | _ v ih =>
    intro i s acc rest hi hv
    rw [enc]
    split
    next hlt =>
      simp only [List.singleton_append, decAux, List.length_singleton]
      have h5 : ¬ i ≥ 5 := by omega
      simp only [h5, if_false, hlt, if_true]
      have : ¬ (i = 4 ∧ v ≥ 16) := by
        rintro ⟨rfl, h16⟩
        simp at hv
        omega
      simp [this]
    next hge =>
      simp only [List.cons_append, decAux, List.length_cons]
      have h5 : ¬ i ≥ 5 := by omega
      have hb : ¬ (v % 128 + 128 < 128) := by omega
      simp only [h5, if_false, hb]
      have hi4 : i < 4 := by
        rcases Nat.lt_or_ge i 4 with h | h
        · exact h
        · have : i = 4 := by omega
          subst this
          simp at hv
          omega
      have hv' : v / 128 < 2 ^ (32 - 7 * (i+1)) := by
        have e : 32 - 7 * i = (32 - 7 * (i+1)) + 7 := by omega
        rw [e, Nat.pow_add] at hv
        exact Nat.div_lt_of_lt_mul (by simpa [Nat.mul_comm] using hv)
      rw [ih (v/128) (by omega) (i+1) (s+7) _ rest (by omega) hv']
      have e1 : (v % 128 + 128) % 128 = v % 128 := by omega
      simp only [e1, Option.some.injEq, Prod.mk.injEq]
      constructor
      · have hvd : v = 128 * (v / 128) + v % 128 := (Nat.div_add_mod v 128).symm
        rw [Nat.pow_add]
        generalize v / 128 = q at *
        generalize v % 128 = r at *
        subst hvd
        have : (2:Nat)^7 = 128 := by decide
        rw [this]
        simp only [Nat.add_mul, Nat.mul_assoc]
        have c : q * (2 ^ s * 128) = 128 * (q * 2 ^ s) := by
          rw [Nat.mul_comm (2^s) 128, ← Nat.mul_assoc, Nat.mul_comm q 128, Nat.mul_assoc]
        omega
      · omega

theorem dec_enc (v : Nat) (rest : List Nat) (h : v < 2^32) :
    dec (enc v ++ rest) = some (v, (enc v).length) := by
  have := decAux_enc v 0 0 0 rest (by omega) (by simpa using h)
  simpa [dec] using this

/-- the decoder reports how many bytes it consumed: at least one, at most what is there -/
theorem decAux_read (i s acc : Nat) (l : List Nat) (v n : Nat) (h : decAux i s acc l = some (v, n)) :
    i < n ∧ n ≤ i + l.length := by
  induction l generalizing i s acc with
  | nil => simp [decAux] at h
  | cons b rest ih =>
    simp only [decAux] at h
    split at h
    · simp at h
    · split at h
      · split at h
        · simp at h
        · simp only [Option.some.injEq, Prod.mk.injEq] at h
          simp only [List.length_cons]; omega
      · have := ih _ _ _ h
        simp only [List.length_cons]; omega

theorem dec_read (l : List Nat) (v n : Nat) (h : dec l = some (v, n)) : 0 < n ∧ n ≤ l.length := by
  have := decAux_read 0 0 0 l v n h
  omega

/-! ### single item -/

def encSingle (x : List Nat) : List Nat := enc x.length ++ x

/-- `decodeSingleContent` -/
def decSingle (data : List Nat) : Option (List Nat × List Nat) :=
  match dec data with
  | none => none
  | some (len, hdr) =>
    if data.length < hdr + len then none
    else some ((data.drop hdr).take len, data.drop (hdr + len))

theorem decSingle_enc (x rest : List Nat) (h : x.length < 2 ^ 32) :
    decSingle (encSingle x ++ rest) = some (x, rest) := by
  unfold decSingle encSingle
  rw [List.append_assoc, dec_enc x.length (x ++ rest) h]
  simp only [List.length_append]
  have : ¬ ((enc x.length).length + (x.length + rest.length) < (enc x.length).length + x.length) := by omega
  simp only [this, if_false, Option.some.injEq, Prod.mk.injEq]
  constructor
  · simp
  · rw [← List.append_assoc]
    have : (enc x.length).length + x.length = (enc x.length ++ x).length := by simp
    rw [this, List.drop_left]

theorem decSingle_shrinks (data x rest : List Nat) (h : decSingle data = some (x, rest)) :
    rest.length < data.length := by
  unfold decSingle at h
  split at h
  · simp at h
  · rename_i len hdr hd
    split at h
    · simp at h
    · simp only [Option.some.injEq, Prod.mk.injEq] at h
      have := dec_read data len hdr hd
      rw [← h.2]
      simp only [List.length_drop]
      omega

/-! ### streams -/

def encContents : List (List Nat) → List Nat
  | [] => []
  | x :: xs => encSingle x ++ encContents xs

/-- `decodeContents` -/
def decContents (data : List Nat) : Option (List (List Nat)) :=
  if h0 : data = [] then some []
  else
    match h : decSingle data with
    | none => none
    | some (x, rest) => (decContents rest).map (x :: ·)
termination_by data.length
decreasing_by exact decSingle_shrinks data x rest h

theorem encSingle_ne_nil (x : List Nat) : encSingle x ≠ [] := by
  unfold encSingle
  rw [enc]
  split <;> simp

/-- C15: splitting inverts joining, for every list of byte strings (empty items included) -/
theorem contents_roundtrip (xs : List (List Nat)) (h : ∀ x ∈ xs, x.length < 2 ^ 32) :
    decContents (encContents xs) = some xs := by
  induction xs with
  | nil => rw [decContents]; simp [encContents]
  | cons x xs ih =>
    rw [decContents]
    have hne : encContents (x :: xs) ≠ [] := by
      simp only [encContents]
      intro h0
      exact encSingle_ne_nil x (List.append_eq_nil_iff.mp h0).1
    simp only [hne, dite_false]
    have hs := decSingle_enc x (encContents xs) (h x (List.mem_cons_self ..))
    simp only [encContents]
    split
    · rename_i hnone; rw [hs] at hnone; simp at hnone
    · rename_i y rest hsome
      rw [hs] at hsome
      simp only [Option.some.injEq, Prod.mk.injEq] at hsome
      obtain ⟨rfl, rfl⟩ := hsome
      rw [ih (fun z hz => h z (List.mem_cons_of_mem _ hz))]
      rfl

#print axioms contents_roundtrip
end Fr
