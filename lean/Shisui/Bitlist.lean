/-! C14/C09 prototype: SSZ bit lists as used by the v0 ACCEPT message
    (go-bitfield `NewBitlist`/`SetBitAt`/`Len`/`BitIndices`, fastssz `ValidateBitlist`). -/
namespace Bl

/-- little-endian bits of a byte -/
def unpackByte (b : Nat) : List Bool := (List.range 8).map (fun i => (b / 2 ^ i) % 2 = 1)

def packBits : List Bool → Nat
  | [] => 0
  | b :: bs => (if b then 1 else 0) + 2 * packBits bs

/-- pack `k` bytes from a bit string -/
def packBytesN : Nat → List Bool → List Nat
  | 0, _ => []
  | k + 1, l => packBits (l.take 8) :: packBytesN k (l.drop 8)

def packBytes (l : List Bool) : List Nat := packBytesN (l.length / 8) l

def unpackBytes (bs : List Nat) : List Bool := bs.flatMap unpackByte

theorem packBits_lt (l : List Bool) : packBits l < 2 ^ l.length := by
  induction l with
  | nil => simp [packBits]
  | cons b bs ih => simp only [packBits, List.length_cons, Nat.pow_succ]; split <;> omega

theorem unpack_pack8 (b0 b1 b2 b3 b4 b5 b6 b7 : Bool) :
    unpackByte (packBits [b0, b1, b2, b3, b4, b5, b6, b7]) = [b0, b1, b2, b3, b4, b5, b6, b7] := by
  cases b0 <;> cases b1 <;> cases b2 <;> cases b3 <;> cases b4 <;> cases b5 <;> cases b6 <;> cases b7 <;> decide

theorem unpack_packBytesN (k : Nat) (l : List Bool) (h : l.length = 8 * k) : unpackBytes (packBytesN k l) = l := by
  induction k generalizing l with
  | zero =>
    have : l = [] := List.eq_nil_of_length_eq_zero (by omega)
    subst this; rfl
  | succ k ih =>
    match l, h with
    | b0 :: b1 :: b2 :: b3 :: b4 :: b5 :: b6 :: b7 :: rest, h =>
      simp only [packBytesN, List.take_succ_cons, List.take_zero, List.drop_succ_cons, List.drop_zero,
        unpackBytes, List.flatMap_cons]
      rw [unpack_pack8]
      have : rest.length = 8 * k := by simp at h; omega
      have := ih rest this
      simp only [unpackBytes] at this
      rw [this]; rfl

theorem unpack_packBytes (l : List Bool) (k : Nat) (h : l.length = 8 * k) : unpackBytes (packBytes l) = l := by
  unfold packBytes
  have : l.length / 8 = k := by omega
  rw [this]; exact unpack_packBytesN k l h

/-- encode verdict bits as an SSZ bitlist: the bits, the sentinel, zero padding to a byte boundary -/
def encode (bits : List Bool) : List Nat :=
  let l := bits ++ [true]
  packBytes (l ++ List.replicate ((8 - l.length % 8) % 8) false)

/-- drop trailing `false`s -/
def stripFalse (l : List Bool) : List Bool := (l.reverse.dropWhile (· = false)).reverse

/-- decode: all bits, strip padding, the last remaining bit is the sentinel.
    `none` when there is no sentinel (empty input or last byte zero — what `ValidateBitlist` rejects
    is modelled by the caller together with the length limit). -/
def decode (bs : List Nat) : Option (List Bool) :=
  match (stripFalse (unpackBytes bs)).reverse with
  | [] => none
  | _ :: rest => some rest.reverse

theorem stripFalse_sentinel (bits : List Bool) (n : Nat) :
    stripFalse (bits ++ [true] ++ List.replicate n false) = bits ++ [true] := by
  unfold stripFalse
  simp only [List.reverse_append, List.reverse_replicate, List.reverse_cons, List.reverse_nil, List.nil_append]
  have : (List.replicate n false ++ ([true] ++ bits.reverse)).dropWhile (· = false) = [true] ++ bits.reverse := by
    induction n with
    | zero => simp
    | succ n ih => simp [List.replicate_succ, ih]
  rw [this]; simp

/-- C14/C09: the verdict bit list survives the wire, for every number of keys -/
theorem decode_encode (bits : List Bool) : decode (encode bits) = some bits := by
  unfold encode decode
  simp only
  have hlen : ∃ k, (bits ++ [true] ++ List.replicate ((8 - (bits ++ [true]).length % 8) % 8) false).length = 8 * k := by
    refine ⟨((bits ++ [true]).length + (8 - (bits ++ [true]).length % 8) % 8) / 8, ?_⟩
    simp only [List.length_append, List.length_replicate]
    omega
  obtain ⟨k, hk⟩ := hlen
  rw [unpack_packBytes _ k hk, stripFalse_sentinel]
  simp

/-- number of bytes: one more than ⌊n/8⌋, as `NewBitlist` allocates -/
theorem encode_length (bits : List Bool) : ∀ k, (bits ++ [true] ++ List.replicate ((8 - (bits ++ [true]).length % 8) % 8) false).length = 8 * k →
    k = bits.length / 8 + 1 := by
  intro k hk
  simp only [List.length_append, List.length_replicate, List.length_singleton] at hk
  omega

#print axioms decode_encode
end Bl
