/-! C11 responder as a relation. `appendBucketNodes` shuffles every bucket, so the reply of `handleFindNodes` is not a
    function of the table; what it may be is: walking the requested distances (repeats and values above 256 dropped) a
    concatenation of duplicate-free selections from each distance's candidate set, each segment complete unless the reply
    ends inside it. This file holds the executable relation the driver evaluates on real replies and the proof that it
    implies the property's clauses. -/
namespace Fnr

structure TN where
  id : Nat
  bucket : Nat
  live : Bool
  cls : String
  size : Nat
deriving Repr

/-- `netutil.CheckRelayIP` by address class -/
def relayOk (sender addr : String) : Bool :=
  if addr == "special" || addr == "none" then false
  else if addr == "loopback" && sender != "loopback" then false
  else if (addr == "lan") && !(sender == "lan" || sender == "loopback") then false
  else true

/-- `bucketAtDistance` -/
def bucketOf (d : Nat) : Nat := if d ≤ 239 then 0 else d - 240

/-- candidates for one requested distance: self for 0, verified entries of the covering bucket otherwise; relay-safe -/
def cands (tab : List TN) (selfN : TN) (asker : String) (d : Nat) : List TN :=
  (if d = 0 then [selfN] else tab.filter (fun n => n.bucket == bucketOf d && n.live)).filter (fun n => relayOk asker n.cls)

def cleanDists : List Nat → List Nat → List Nat
  | [], _ => []
  | d :: ds, seen => if seen.contains d || d > 256 then cleanDists ds seen else d :: cleanDists ds (d :: seen)

/-- consume the reply against the per-distance candidate sets; returns (ok, candidates not used, in order) -/
def consume : List (List TN) → List Nat → Bool × List (List TN)
  | [], res => (res.isEmpty, [])
  | s :: ss, res =>
    if !((res.take s.length).all (fun i => s.any (·.id == i)) && (res.take s.length).eraseDups.length == (res.take s.length).length) then (false, [])
    else if (res.take s.length).length < s.length then
      (res.length == (res.take s.length).length, (s.filter (fun n => !(res.take s.length).contains n.id)) :: ss)
    else consume ss (res.drop s.length)

/-- every record of an allowed reply comes from the candidate set of one of the requested distances -/
theorem consume_mem (segs : List (List TN)) : ∀ (res : List Nat) (rest : List (List TN)),
    consume segs res = (true, rest) → ∀ i ∈ res, ∃ s ∈ segs, ∃ n ∈ s, n.id = i := by
  induction segs with
  | nil =>
    intro res rest h i hi
    simp only [consume, Prod.mk.injEq, List.isEmpty_iff] at h
    rw [h.1] at hi; cases hi
  | cons s ss ih =>
    intro res rest h i hi
    simp only [consume] at h
    split at h
    · simp at h
    · rename_i hok
      simp only [Bool.not_eq_true', Bool.and_eq_false_iff, not_or, Bool.not_eq_false] at hok
      have hall : (res.take s.length).all (fun i => s.any (·.id == i)) = true := by
        cases h1 : (res.take s.length).all (fun i => s.any (·.id == i)) with
        | true => rfl
        | false => simp [h1] at hok
      split at h
      · rename_i hshort
        simp only [Prod.mk.injEq, beq_iff_eq] at h
        -- the reply ended inside this segment: res = res.take s.length
        have hres : res = res.take s.length := by
          have hl : res.length ≤ s.length := by
            have := h.1
            simp only [List.length_take] at this hshort
            omega
          exact (List.take_of_length_le hl).symm
        rw [hres] at hi
        have := List.all_eq_true.mp hall i hi
        obtain ⟨n, hn, hid⟩ := List.any_eq_true.mp this
        exact ⟨s, List.mem_cons_self .., n, hn, by simpa using hid⟩
      · -- full segment, continue
        rw [← List.take_append_drop s.length res] at hi
        rcases List.mem_append.mp hi with hi | hi
        · have := List.all_eq_true.mp hall i hi
          obtain ⟨n, hn, hid⟩ := List.any_eq_true.mp this
          exact ⟨s, List.mem_cons_self .., n, hn, by simpa using hid⟩
        · obtain ⟨s', hs', n, hn, hid⟩ := ih (res.drop s.length) rest h i hi
          exact ⟨s', List.mem_cons_of_mem _ hs', n, hn, hid⟩

/-- members of a candidate set are the local record (distance 0) or verified entries of the covering bucket, and
    relay-safe for the asker -/
theorem cands_props (tab : List TN) (selfN : TN) (asker : String) (d : Nat) (n : TN) (h : n ∈ cands tab selfN asker d) :
    relayOk asker n.cls = true ∧ ((d = 0 ∧ n = selfN) ∨ (d ≠ 0 ∧ n ∈ tab ∧ n.live = true ∧ n.bucket = bucketOf d)) := by
  unfold cands at h
  simp only [List.mem_filter] at h
  obtain ⟨h1, h2⟩ := h
  refine ⟨h2, ?_⟩
  split at h1
  · rename_i hd; simp at h1; exact Or.inl ⟨hd, h1⟩
  · rename_i hd
    simp only [List.mem_filter, Bool.and_eq_true, beq_iff_eq] at h1
    exact Or.inr ⟨hd, h1.1, h1.2.2, h1.2.1⟩

theorem mem_cleanDists (ds : List Nat) : ∀ seen d, d ∈ cleanDists ds seen → d ∈ ds ∧ d ≤ 256 := by
  induction ds with
  | nil => intro seen d h; simp [cleanDists] at h
  | cons x xs ih =>
    intro seen d h
    simp only [cleanDists] at h
    split at h
    · obtain ⟨h1, h2⟩ := ih seen d h; exact ⟨List.mem_cons_of_mem _ h1, h2⟩
    · rename_i hc
      simp only [Bool.or_eq_true, decide_eq_true_eq, not_or] at hc
      rcases List.mem_cons.mp h with rfl | h
      · exact ⟨List.mem_cons_self .., by omega⟩
      · obtain ⟨h1, h2⟩ := ih (x :: seen) d h; exact ⟨List.mem_cons_of_mem _ h1, h2⟩

/-- **C11 responder**: every record of a reply allowed by the relation is the local record for a requested distance 0,
    or a liveness-checked table entry from the bucket covering a requested valid distance (≤ 256), and in both cases its
    address may be relayed to the asker -/
theorem allowed_reply_rule (tab : List TN) (selfN : TN) (asker : String) (dists : List Nat) (res : List Nat)
    (rest : List (List TN))
    (h : consume ((cleanDists dists []).map (cands tab selfN asker)) res = (true, rest)) :
    ∀ i ∈ res, ∃ d ∈ dists, d ≤ 256 ∧ ∃ n, n.id = i ∧ relayOk asker n.cls = true ∧
      ((d = 0 ∧ n = selfN) ∨ (d ≠ 0 ∧ n ∈ tab ∧ n.live = true ∧ n.bucket = bucketOf d)) := by
  intro i hi
  obtain ⟨s, hs, n, hn, hid⟩ := consume_mem _ res rest h i hi
  obtain ⟨d, hd, rfl⟩ := List.mem_map.mp hs
  obtain ⟨hd1, hd2⟩ := mem_cleanDists dists [] d hd
  obtain ⟨hr, hk⟩ := cands_props tab selfN asker d n hn
  exact ⟨d, hd1, hd2, n, hid, hr, hk⟩

#print axioms allowed_reply_rule
end Fnr
