import Shisui.FramingPrefix
/-! C15: the single-content uTP framing of `portal_protocol_v1.go` (`encode/decodeUtpContent`) and the
    rejection lemmas for malformed streams. -/
namespace Fr

/-- `encodeUtpContent`: version 1 adds one length prefix, every other version passes the bytes through -/
def utpEnc (v : Nat) (d : List Nat) : List Nat := if v = 1 then encSingle d else d

/-- `decodeUtpContent`: version 1 strips the prefix and rejects trailing bytes -/
def utpDec (v : Nat) (d : List Nat) : Option (List Nat) :=
  if v = 1 then
    match decSingle d with
    | some (c, []) => some c
    | _ => none
  else some d

theorem utp_roundtrip (v : Nat) (d : List Nat) (h : d.length < 2 ^ 32) : utpDec v (utpEnc v d) = some d := by
  unfold utpDec utpEnc
  by_cases hv : v = 1
  · simp only [hv, if_true]
    have := decSingle_enc d [] h
    rw [List.append_nil] at this
    rw [this]
  · simp [hv]

/-- a length prefix that exceeds the remaining bytes is rejected -/
theorem overlong_prefix_rejected (data : List Nat) (len hdr : Nat) (hd : dec data = some (len, hdr))
    (hlong : data.length < hdr + len) : decSingle data = none := by
  unfold decSingle
  rw [hd]
  simp [hlong]

theorem decSingle_none_decContents (data : List Nat) (hne : data ≠ []) (h : decSingle data = none) :
    decContents data = none := by
  rw [decContents]
  simp only [hne, dite_false]
  split
  · rfl
  · rename_i x rest hs; rw [h] at hs; simp at hs

/-- any stream whose next varint does not decode (cut, longer than 5 bytes, or ≥ 2^32) is rejected as a whole -/
theorem bad_varint_rejected (data : List Nat) (hne : data ≠ []) (h : dec data = none) : decContents data = none := by
  apply decSingle_none_decContents data hne
  unfold decSingle
  rw [h]

/-- the varint decoder never yields a value of 2^32 or more: accumulators stay below 2^(7i) -/
theorem decAux_lt (l : List Nat) : ∀ (i s acc v n : Nat), s = 7 * i → acc < 2 ^ (7 * i) → (∀ b ∈ l, b < 256) →
    decAux i s acc l = some (v, n) → v < 2 ^ 32 := by
  induction l with
  | nil => intro i s acc v n _ _ _ h; simp [decAux] at h
  | cons b rest ih =>
    intro i s acc v n hs hacc hb h
    simp only [decAux] at h
    split at h
    · simp at h
    · rename_i h5
      split at h
      · rename_i hb128
        split at h
        · simp at h
        · rename_i h4
          simp only [Option.some.injEq, Prod.mk.injEq] at h
          subst hs
          rw [← h.1]
          have hi : i ≤ 4 := by omega
          by_cases hi4 : i = 4
          · subst hi4
            have : b < 16 := by
              rcases Nat.lt_or_ge b 16 with hh | hh
              · exact hh
              · exact absurd ⟨rfl, hh⟩ h4
            have e : (2:Nat) ^ 32 = 16 * 2 ^ (7 * 4) := by decide
            rw [e]
            have : b * 2 ^ (7 * 4) ≤ 15 * 2 ^ (7 * 4) := Nat.mul_le_mul_right _ (by omega)
            omega
          · have hi3 : i ≤ 3 := by omega
            have h1 : b * 2 ^ (7 * i) ≤ 127 * 2 ^ (7 * i) := Nat.mul_le_mul_right _ (by omega)
            have h2 : 2 ^ (7 * i) ≤ 2 ^ 21 := Nat.pow_le_pow_right (by decide) (by omega)
            have e : (2:Nat) ^ 32 = 2048 * 2 ^ 21 := by decide
            omega
      · rename_i hb128
        have hacc' : acc + b % 128 * 2 ^ s < 2 ^ (7 * (i + 1)) := by
          subst hs
          have e : 2 ^ (7 * (i + 1)) = 128 * 2 ^ (7 * i) := by
            rw [show 7 * (i + 1) = 7 + 7 * i by omega, Nat.pow_add]
          rw [e]
          have : b % 128 * 2 ^ (7 * i) ≤ 127 * 2 ^ (7 * i) := Nat.mul_le_mul_right _ (by omega)
          omega
        exact ih (i + 1) (s + 7) _ v n (by omega) hacc' (fun x hx => hb x (List.mem_cons_of_mem _ hx)) h

/-- C15 "varint overflows 32 bits is rejected": a decoded length is always below 2^32 -/
theorem dec_lt (l : List Nat) (v n : Nat) (hb : ∀ b ∈ l, b < 256) (h : dec l = some (v, n)) : v < 2 ^ 32 :=
  decAux_lt l 0 0 0 v n rfl (by decide) hb h

/-- C15 "a single-item stream is accepted only if its prefix covers exactly the remaining bytes" -/
theorem single_exact (s c : List Nat) (h : utpDec 1 s = some c) :
    ∃ len hdr, dec s = some (len, hdr) ∧ len = c.length ∧ s.length = hdr + len ∧ s.drop hdr = c := by
  unfold utpDec at h
  simp only [if_true] at h
  split at h
  · rename_i c' hs
    simp only [Option.some.injEq] at h
    subst h
    unfold decSingle at hs
    split at hs
    · simp at hs
    · rename_i len hdr hd
      split at hs
      · simp at hs
      · rename_i hlen
        simp only [Option.some.injEq, Prod.mk.injEq] at hs
        have hdrop : s.length ≤ hdr + len := by
          have := congrArg List.length hs.2
          simp only [List.length_drop, List.length_nil] at this
          omega
        have hl : s.length = hdr + len := by omega
        refine ⟨len, hdr, hd, ?_, hl, ?_⟩
        · rw [← hs.1]; simp only [List.length_take, List.length_drop]; omega
        · rw [← hs.1]; apply (List.take_of_length_le _).symm; simp only [List.length_drop]; omega
  · simp at h

end Fr
