/-! Prototype of the lookup model (C10), core only. -/
namespace Lk

def alpha := 3
def kRes := 16

structure LState where
  asked : List Nat
  seen : List Nat
  result : List Nat
  inflight : List Nat
deriving Repr

variable (d : Nat → Nat)

def insertSorted (n : Nat) : List Nat → List Nat
  | [] => [n]
  | x :: xs => if d x > d n then n :: x :: xs else x :: insertSorted n xs

def push (res : List Nat) (n : Nat) : List Nat := (insertSorted d n res).take kRes

/-- one iteration of the loop in `startQueries` -/
def ask (st : LState) (n : Nat) : LState :=
  if st.inflight.length < alpha ∧ n ∉ st.asked then
    { st with asked := n :: st.asked, inflight := n :: st.inflight }
  else st

def start (s : LState) : LState := s.result.foldl ask s

def see (st : LState) (n : Nat) : LState :=
  if n ∈ st.seen then st else { st with seen := n :: st.seen, result := push d st.result n }

/-- a reply from in-flight peer `p` carrying `nodes`, followed by `startQueries` -/
def reply (s : LState) (p : Nat) (nodes : List Nat) : LState :=
  let s1 := nodes.foldl (see d) s
  start { s1 with inflight := s1.inflight.erase p }

def init (me : Nat) (localClosest : List Nat) : LState :=
  start ((localClosest.foldl (see d) { asked := [me], seen := [], result := [], inflight := [] }))

/-- invariant -/
structure Inv (me : Nat) (s : LState) : Prop where
  infl : s.inflight.length ≤ alpha
  askedND : s.asked.Nodup
  inflND : s.inflight.Nodup
  sub : ∀ n ∈ s.inflight, n ∈ s.asked
  selfAsked : me ∈ s.asked
  selfNot : me ∉ s.inflight

theorem ask_inv (me : Nat) (st : LState) (n : Nat) (h : Inv me st) : Inv me (ask st n) := by
  unfold ask
  split
  · rename_i hc
    obtain ⟨hlt, hna⟩ := hc
    constructor
    · simp only [List.length_cons]; exact hlt
    · exact List.nodup_cons.mpr ⟨hna, h.askedND⟩
    · exact List.nodup_cons.mpr ⟨fun hm => hna (h.sub n hm), h.inflND⟩
    · intro m hm
      simp only [List.mem_cons] at hm ⊢
      rcases hm with rfl | hm
      · exact Or.inl rfl
      · exact Or.inr (h.sub m hm)
    · exact List.mem_cons_of_mem _ h.selfAsked
    · intro hm
      simp only [List.mem_cons] at hm
      rcases hm with rfl | hm
      · exact hna h.selfAsked
      · exact h.selfNot hm
  · exact h

theorem foldl_ask_inv (me : Nat) (l : List Nat) (st : LState) (h : Inv me st) : Inv me (l.foldl ask st) := by
  induction l generalizing st with
  | nil => exact h
  | cons x xs ih => exact ih _ (ask_inv me st x h)

theorem start_inv (me : Nat) (s : LState) (h : Inv me s) : Inv me (start s) :=
  foldl_ask_inv me s.result s h

theorem see_keeps (st : LState) (n : Nat) : (see d st n).asked = st.asked ∧ (see d st n).inflight = st.inflight := by
  unfold see; split <;> simp

theorem foldl_see_keeps (l : List Nat) (st : LState) :
    (l.foldl (see d) st).asked = st.asked ∧ (l.foldl (see d) st).inflight = st.inflight := by
  induction l generalizing st with
  | nil => simp
  | cons x xs ih =>
    have := ih (see d st x)
    have h2 := see_keeps d st x
    simp only [List.foldl_cons]
    exact ⟨this.1.trans h2.1, this.2.trans h2.2⟩

/-- T1/T2: every reachable state has ≤ alpha queries in flight, asks nobody twice, never asks self -/
theorem reply_inv (me : Nat) (s : LState) (p : Nat) (nodes : List Nat) (h : Inv me s) :
    Inv me (reply d s p nodes) := by
  unfold reply
  apply start_inv
  have hk := foldl_see_keeps d nodes s
  constructor
  · simp only [hk.2]
    exact Nat.le_trans (List.length_erase_le ..) h.infl
  · simp only [hk.1]; exact h.askedND
  · simp only [hk.2]; exact h.inflND.erase p
  · intro n hn
    simp only [hk.2] at hn
    simp only [hk.1]
    exact h.sub n (List.mem_of_mem_erase hn)
  · simp only [hk.1]; exact h.selfAsked
  · simp only [hk.2]
    exact fun hm => h.selfNot (List.mem_of_mem_erase hm)

/-- termination measure: 2 * (universe members not yet asked) + queries in flight -/
def unasked (U : List Nat) (s : LState) : Nat := (U.filter (fun n => n ∉ s.asked)).length
def mu (U : List Nat) (s : LState) : Nat := 2 * unasked U s + s.inflight.length

theorem unasked_cons (U : List Nat) (hU : U.Nodup) (st : LState) (n : Nat) (hn : n ∈ U) (hna : n ∉ st.asked) :
    unasked U { st with asked := n :: st.asked, inflight := n :: st.inflight } + 1 = unasked U st := by
  unfold unasked
  simp only
  induction U with
  | nil => simp at hn
  | cons u us ih =>
    have hnd := List.nodup_cons.mp hU
    simp only [List.filter_cons]
    by_cases hu : u = n
    · subst hu
      simp only [List.mem_cons, true_or, not_true_eq_false, decide_false, hna, not_false_eq_true, decide_true, if_true]
      simp only [Bool.false_eq_true, if_false, List.length_cons]
      -- the remaining elements differ from u, so filtering is unchanged
      have : us.filter (fun m => decide ¬(m = u ∨ m ∈ st.asked)) = us.filter (fun m => decide (m ∉ st.asked)) := by
        apply List.filter_congr
        intro m hm
        have : m ≠ u := fun h => hnd.1 (h ▸ hm)
        simp [this]
      rw [this]
    · have hn' : n ∈ us := by
        simp only [List.mem_cons] at hn
        rcases hn with h | h
        · exact absurd h.symm hu
        · exact h
      have ih' := ih hnd.2 hn'
      by_cases hua : u ∈ st.asked
      · simp [hua, hu]
        simpa using ih'
      · simp [hua, hu]
        simpa using ih'

/-- each `ask` does not increase the measure (and strictly decreases it when it asks) -/
theorem ask_mu (U : List Nat) (hU : U.Nodup) (st : LState) (n : Nat) (hn : n ∈ U) :
    mu U (ask st n) ≤ mu U st := by
  unfold ask
  split
  · rename_i hc
    have := unasked_cons U hU st n hn hc.2
    simp only [mu, List.length_cons]
    omega
  · exact Nat.le_refl _

theorem foldl_ask_mu (U : List Nat) (hU : U.Nodup) (l : List Nat) (hl : ∀ n ∈ l, n ∈ U) (st : LState) :
    mu U (l.foldl ask st) ≤ mu U st := by
  induction l generalizing st with
  | nil => exact Nat.le_refl _
  | cons x xs ih =>
    simp only [List.foldl_cons]
    exact Nat.le_trans (ih (fun n hn => hl n (List.mem_cons_of_mem _ hn)) _)
      (ask_mu U hU st x (hl x (List.mem_cons_self ..)))

theorem mem_insertSorted (n m : Nat) (l : List Nat) (h : m ∈ insertSorted d n l) : m = n ∨ m ∈ l := by
  induction l with
  | nil => simp [insertSorted] at h; exact Or.inl h
  | cons x xs ih =>
    simp only [insertSorted] at h
    split at h
    · simp only [List.mem_cons] at h ⊢
      rcases h with h | h | h
      · exact Or.inl h
      · exact Or.inr (Or.inl h)
      · exact Or.inr (Or.inr h)
    · simp only [List.mem_cons] at h ⊢
      rcases h with h | h
      · exact Or.inr (Or.inl h)
      · rcases ih h with h | h
        · exact Or.inl h
        · exact Or.inr (Or.inr h)

theorem see_result_sub (st : LState) (n m : Nat) (h : m ∈ (see d st n).result) : m = n ∨ m ∈ st.result := by
  unfold see at h
  split at h
  · exact Or.inr h
  · exact mem_insertSorted d n m st.result (List.mem_of_mem_take h)

theorem foldl_see_result_sub (l : List Nat) (st : LState) (m : Nat) (h : m ∈ (l.foldl (see d) st).result) :
    m ∈ l ∨ m ∈ st.result := by
  induction l generalizing st with
  | nil => exact Or.inr h
  | cons x xs ih =>
    simp only [List.foldl_cons] at h
    rcases ih _ h with h | h
    · exact Or.inl (List.mem_cons_of_mem _ h)
    · rcases see_result_sub d st x m h with h | h
      · exact Or.inl (h ▸ List.mem_cons_self ..)
      · exact Or.inr h

/-- T3: every reply strictly decreases the measure, whatever the peer answered and whichever
    in-flight query completed; hence at most `mu U s₀ ≤ 2·|U| + alpha` replies in any execution. -/
theorem reply_mu (U : List Nat) (hU : U.Nodup) (s : LState) (p : Nat) (nodes : List Nat)
    (hp : p ∈ s.inflight) (hres : ∀ n ∈ s.result, n ∈ U) (hnodes : ∀ n ∈ nodes, n ∈ U) :
    mu U (reply d s p nodes) < mu U s := by
  unfold reply
  have hk := foldl_see_keeps d nodes s
  have h1 := foldl_ask_mu U hU (nodes.foldl (see d) s).result
    (by
      intro n hn
      rcases foldl_see_result_sub d nodes s n hn with h | h
      · exact hnodes n h
      · exact hres n h)
    { (nodes.foldl (see d) s) with inflight := (nodes.foldl (see d) s).inflight.erase p }
  refine Nat.lt_of_le_of_lt h1 ?_
  simp only [mu, unasked, hk.1, hk.2]
  have : (s.inflight.erase p).length + 1 = s.inflight.length := by
    rw [List.length_erase_of_mem hp]
    have : 0 < s.inflight.length := List.length_pos_of_mem hp
    omega
  omega

#print axioms reply_inv
#print axioms reply_mu

end Lk
