import Shisui.Dispatch
import Shisui.Trie.Basic
/-! # C01 model, part 2: trie traversal with named panic sites, the validators and the state adapter's `Put`

The validators' inputs are described by *shapes*: what the generator knows by construction about the key and the
content it built (e.g. "a merge-era header with an internally consistent execution-block branch and slot `s`").
Byte strings whose structure is not known (`raw`) are decided by dependency decoders: the model answers `handled`. -/
namespace Dp
open Tr (Node matchKey matchKey_ok)

/-- outcome of `TraverseTrieNode`, panics carrying the kind of run-time error -/
inductive TOut where
  | ok (ref : List Nat) (rest : List Nat)
  | err
  | panic (kind : String)
deriving DecidableEq, Repr

/-- `state/trie/utils.go: TraverseTrieNode`. `qk`: `v.Key[length-1]` unguarded; `qp`: `path[index]` unguarded.
    With both switches on this is `Tr.traverse` (`traverseQ_asIs`). -/
def traverseQ (qk qp : Bool) (n : Node) (path : List Nat) : TOut :=
  match n, path with
  | .full _, [] => .err
  | .full cs, p :: ps =>
    match cs[p]? with
    | none => .panic "idx"                              -- v.Children[first]: never for nibbles of a decoded key
    | some c => traverseQ qk qp c ps
  | .short key val, path =>
    match hg : key.getLast? with
    | none => if qk then .panic "idxneg" else .err      -- v.Key[length-1] with length 0
    | some last =>
      if last = 16 then
        if key.dropLast = [] then .err
        else if key.dropLast ≠ path then .err
        else match val with
          | .value v => .ok v path
          | _ => .panic "conv"                          -- (v.Val).(valueNode): never for a decoded node
      else
        match hm : matchKey key path with
        | .ok _ rest => traverseQ qk qp val rest
        | .err => .err
        | .panic => if qp then .panic "idx" else .err   -- path[index] beyond the path
  | .hash h, path => .ok h path
  | .value _, _ => .err
  | .empty, _ => .err
termination_by path.length
decreasing_by
  · simp
  · have := matchKey_ok key path _ rest hm
    have hk : key ≠ [] := by
      intro h; subst h; simp at hg
    have : 0 < key.length := List.length_pos_iff.mpr hk
    rw [‹path = key ++ rest ∧ _›.1]
    simp; omega

def TOut.erase : TOut → Tr.Outcome
  | .ok r p => .ok r p
  | .err => .err
  | .panic _ => .panic

/-- what `DecodeTrieNode` guarantees: full nodes have 17 slots, a key ending in the terminator holds a value -/
def WfNode : Node → Prop
  | .full cs => cs.length = 17 ∧ ∀ c ∈ cs, WfNode c
  | .short key val => (key.getLast? = some 16 → ∃ v, val = .value v) ∧ WfNode val
  | _ => True

def wfNodeB : Node → Bool
  | .full cs => cs.length == 17 && cs.attach.all (fun c => wfNodeB c.1)
  | .short key val => (key.getLast? != some 16 || (match val with | .value _ => true | _ => false)) && wfNodeB val
  | _ => true
termination_by n => sizeOf n
decreasing_by
  · have := List.sizeOf_lt_of_mem c.2
    simp only [Node.full.sizeOf_spec]; omega
  · simp only [Node.short.sizeOf_spec]; omega

/-! ## state/storage.go `Put` -/

inductive StateShape where
  | acc (np : Nat) (hm : Bool)     -- account trie node: proof length, last node hashes to the key's node hash
  | con (np : Nat) (hm : Bool)     -- contract storage trie node: storage-proof length, hash match
  | code (hm : Bool)               -- bytecode: code hashes to the key's code hash
  | vec                            -- a repo vector (valid)
  | raw                            -- bytes of unknown structure
deriving DecidableEq, Repr

def statePut (q : Quirks) (key : List Nat) (shape : StateShape) : Out :=
  match key with
  | [] => guard1 q.stateKey "state.Storage.Put:idx" .err
  | t :: _ =>
    match shape with
    | .acc np hm =>
      if np = 0 then guard1 q.stateProof "state.Storage.putAccountTrieNode:idxneg" .err
      else if hm then .ok else .err
    | .con np hm =>
      if np = 0 then guard1 q.stateProof "state.Storage.putContractStorageTrieNode:idxneg" .err
      else if hm then .ok else .err
    | .code hm => if hm then .ok else .err
    | .vec => .ok
    | .raw => if t = 0x20 ∨ t = 0x21 ∨ t = 0x22 then .handled else .err

/-! ## The validators -/

inductive HistShape where
  | vec                                              -- a repo vector with the header it belongs to
  | roots (exec : Bool) (slot nroots : Nat)          -- merge..capella header, execution branch consistent or not
  | body (hdrHasWd bodyHasWd wdMatch : Bool)         -- block body against the header the source reports
  | raw
deriving DecidableEq, Repr

def historyValidate (q : Quirks) (key : List Nat) (shape : HistShape) : Out :=
  match key with
  | [] => guard1 q.histVal "history.HistoryValidator.ValidateContent:idx" .err
  | t :: _ =>
    match shape with
    | .vec => .ok
    | .roots exec slot nroots =>
      if !exec then .err
      else if slot / 8192 < nroots then .err     -- the beacon-block branch is random: Merkle check fails
      else guard1 q.rootsIndex "validation.HeaderValidator.validateMergeToCapellaHeader:idx" .err
    | .body hw bw wm =>
      if !bw then (if hw then .err else .ok)     -- legacy body: fits only a header without a withdrawals root (265171a)
      else if !hw then guard1 q.withdrawalsNil "history.validateBlockBody:nil" .err
      else if wm then .ok else .err
    | .raw => if t ≤ 3 then .handled else .err

inductive StShape where
  | vec
  | acct2 (n1 : Option Node) (path : List Nat) (link nh : Bool)
  | raw

def stateValidate (q : Quirks) (key : List Nat) (shape : StShape) : Out :=
  match key with
  | [] => guard1 q.stateVal "state.StateValidator.ValidateContent:idx" .err
  | t :: _ =>
    match shape with
    | .vec => .ok
    | .acct2 n1 path link nh =>
      match n1 with
      | none => .err                              -- DecodeTrieNode failed
      | some n =>
        match traverseQ q.trieEmptyKey q.triePath n path with
        | .panic k => .panic ("trie.TraverseTrieNode:" ++ k)
        | .err => .err
        | .ok _ rest =>
          if !link then .err                      -- the second node does not hash to the reference
          else if rest ≠ [] then .err             -- "path is too long"
          else if nh then .ok else .err
    | .raw => if t = 0x20 ∨ t = 0x21 ∨ t = 0x22 then .handled else .err

def beaconValidate (q : Quirks) (key : List Nat) : Out :=
  match key with
  | [] => guard1 q.beaconVal "beacon.BeaconValidator.ValidateContent:idx" .err
  | t :: _ => if 0x10 ≤ t ∧ t ≤ 0x14 then .handled else .err

end Dp
