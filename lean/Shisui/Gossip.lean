/-! C20 prototype: gossip target selection as a decidable relation (the shuffle makes it a relation). -/
namespace Gs

structure Ctx where
  closest : List Nat            -- the ≤ 32 table nodes nearest the content id, in log-distance order
  radius : Nat → Option Nat     -- last reported radius per node, if any
  covers : Nat → Nat → Bool     -- the in-range test (C06) for (node, its radius)
  src : Option Nat              -- node the content came from

def isCovered (c : Ctx) (n : Nat) : Bool :=
  match c.radius n with
  | some r => c.covers n r && (c.src != some n)
  | none => false

def covered (c : Ctx) : List Nat := c.closest.filter (isCovered c)

/-- what `GossipAndReturnPeers` may return -/
def Allowed (c : Ctx) (result : List Nat) : Prop :=
  let cov := covered c
  if cov.length ≤ 4 then result = cov
  else result.take 4 = cov.take 4 ∧
       (∀ n ∈ result.drop 4, n ∈ cov.drop 4) ∧ (result.drop 4).length = min 4 (cov.drop 4).length

theorem covered_props (c : Ctx) (n : Nat) (h : n ∈ covered c) :
    n ∈ c.closest ∧ (∃ r, c.radius n = some r ∧ c.covers n r = true) ∧ c.src ≠ some n := by
  simp only [covered, List.mem_filter, isCovered] at h
  obtain ⟨h1, h2⟩ := h
  cases hr : c.radius n with
  | none => simp [hr] at h2
  | some r =>
    simp only [hr, Bool.and_eq_true, bne_iff_ne, ne_eq] at h2
    exact ⟨h1, ⟨r, rfl, h2.1⟩, h2.2⟩

theorem mem_result (c : Ctx) (result : List Nat) (h : Allowed c result) (n : Nat) (hn : n ∈ result) : n ∈ covered c := by
  unfold Allowed at h
  simp only at h
  split at h
  · rw [h] at hn; exact hn
  · obtain ⟨h1, h2, _⟩ := h
    rw [← List.take_append_drop 4 result] at hn
    rcases List.mem_append.mp hn with hn | hn
    · rw [h1] at hn; exact List.mem_of_mem_take hn
    · exact List.mem_of_mem_drop (h2 n hn)

/-- C20: at most eight targets, all table nodes whose last reported radius covers the content,
    never the source, never a node of unknown radius; the four closest covered ones always included -/
theorem gossip_rule (c : Ctx) (result : List Nat) (h : Allowed c result) :
    result.length ≤ 8 ∧
    (∀ n ∈ result, n ∈ c.closest ∧ (∃ r, c.radius n = some r ∧ c.covers n r = true) ∧ c.src ≠ some n) ∧
    (∀ n ∈ (covered c).take 4, n ∈ result) := by
  refine ⟨?_, fun n hn => covered_props c n (mem_result c result h n hn), ?_⟩
  · unfold Allowed at h
    simp only at h
    split at h
    · rw [h]; omega
    · obtain ⟨_, _, h3⟩ := h
      have : result.length = (result.take 4).length + (result.drop 4).length := by
        rw [← List.length_append, List.take_append_drop]
      have h4 : (result.take 4).length ≤ 4 := by simp [List.length_take]; omega
      omega
  · intro n hn
    unfold Allowed at h
    simp only at h
    split at h
    · rw [h]; exact List.mem_of_mem_take hn
    · rw [← h.1] at hn; exact List.mem_of_mem_take hn

#print axioms gossip_rule
end Gs
