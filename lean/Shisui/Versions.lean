/-! C19 prototype: protocol version negotiation with the versions cache as state. -/
namespace Vs

/-- `findBiggestSameNumber`: fold over `b`, keeping the largest element that is also in `a` -/
def biggestCommon (a b : List Nat) : Option Nat :=
  if a = [] ∨ b = [] then none
  else b.foldl (fun acc v => if v ∈ a then (match acc with | none => some v | some m => some (max m v)) else acc) none

theorem foldl_spec (a : List Nat) : ∀ (b : List Nat) (acc : Option Nat),
    (∀ m, acc = some m → m ∈ a) →
    let r := b.foldl (fun acc v => if v ∈ a then (match acc with | none => some v | some m => some (max m v)) else acc) acc
    (∀ m, r = some m → m ∈ a ∧ (m ∈ b ∨ acc = some m) ∧ (∀ v ∈ b, v ∈ a → v ≤ m) ∧ (∀ m0, acc = some m0 → m0 ≤ m)) ∧
    (r = none → acc = none ∧ ∀ v ∈ b, v ∉ a) := by
  intro b
  induction b with
  | nil =>
    intro acc hacc
    simp only [List.foldl_nil]
    exact ⟨fun m hm => ⟨hacc m hm, Or.inr hm, by simp, fun m0 h0 => by rw [hm] at h0; cases h0; exact Nat.le_refl _⟩,
           fun h => ⟨h, by simp⟩⟩
  | cons x xs ih =>
    intro acc hacc
    simp only [List.foldl_cons]
    by_cases hx : x ∈ a
    · simp only [hx, if_true]
      cases acc with
      | none =>
        have := ih (some x) (by intro m hm; cases hm; exact hx)
        simp only at this ⊢
        obtain ⟨h1, h2⟩ := this
        constructor
        · intro m hm
          obtain ⟨ha, hb, hc, hd⟩ := h1 m hm
          refine ⟨ha, ?_, ?_, by simp⟩
          · rcases hb with hb | hb
            · exact Or.inl (List.mem_cons_of_mem _ hb)
            · cases hb; exact Or.inl (List.mem_cons_self ..)
          · intro v hv hva
            simp only [List.mem_cons] at hv
            rcases hv with rfl | hv
            · exact hd v rfl
            · exact hc v hv hva
        · intro hn; have := (h2 hn).1; simp at this
      | some m0 =>
        have := ih (some (max m0 x)) (by
          intro m hm; cases hm
          have := hacc m0 rfl
          rcases Nat.le_total m0 x with h | h
          · rw [Nat.max_eq_right h]; exact hx
          · rw [Nat.max_eq_left h]; exact this)
        simp only at this ⊢
        obtain ⟨h1, h2⟩ := this
        constructor
        · intro m hm
          obtain ⟨ha, hb, hc, hd⟩ := h1 m hm
          have hmax := hd (max m0 x) rfl
          refine ⟨ha, ?_, ?_, ?_⟩
          · rcases hb with hb | hb
            · exact Or.inl (List.mem_cons_of_mem _ hb)
            · cases hb
              rcases Nat.le_total m0 x with h | h
              · rw [Nat.max_eq_right h]; exact Or.inl (List.mem_cons_self ..)
              · rw [Nat.max_eq_left h]; exact Or.inr rfl
          · intro v hv hva
            simp only [List.mem_cons] at hv
            rcases hv with rfl | hv
            · have := Nat.le_max_right m0 v; omega
            · exact hc v hv hva
          · intro m1 h1'; cases h1'
            have := Nat.le_max_left m0 x; omega
        · intro hn; have := (h2 hn).1; simp at this
    · simp only [hx, if_false]
      have := ih acc hacc
      simp only at this ⊢
      obtain ⟨h1, h2⟩ := this
      constructor
      · intro m hm
        obtain ⟨ha, hb, hc, hd⟩ := h1 m hm
        refine ⟨ha, ?_, ?_, hd⟩
        · rcases hb with hb | hb
          · exact Or.inl (List.mem_cons_of_mem _ hb)
          · exact Or.inr hb
        · intro v hv hva
          simp only [List.mem_cons] at hv
          rcases hv with rfl | hv
          · exact absurd hva hx
          · exact hc v hv hva
      · intro hn
        obtain ⟨ha, hb⟩ := h2 hn
        refine ⟨ha, ?_⟩
        intro v hv
        simp only [List.mem_cons] at hv
        rcases hv with rfl | hv
        · exact hx
        · exact hb v hv

/-- C19: the result is the highest version present in both lists; an error iff there is none -/
theorem biggestCommon_spec (a b : List Nat) :
    (∀ m, biggestCommon a b = some m → m ∈ a ∧ m ∈ b ∧ ∀ v, v ∈ a → v ∈ b → v ≤ m) ∧
    (biggestCommon a b = none → ∀ v, v ∈ a → v ∉ b) := by
  unfold biggestCommon
  split
  · rename_i h
    constructor
    · intro m hm; simp at hm
    · intro _ v hva hvb
      rcases h with h | h
      · subst h; simp at hva
      · subst h; simp at hvb
  · have := foldl_spec a b none (by simp)
    simp only at this
    obtain ⟨h1, h2⟩ := this
    constructor
    · intro m hm
      obtain ⟨ha, hb, hc, _⟩ := h1 m hm
      refine ⟨ha, ?_, fun v hva hvb => hc v hvb hva⟩
      rcases hb with hb | hb
      · exact hb
      · simp at hb
    · intro hn v hva hvb
      exact (h2 hn).2 v hvb hva

/-- both sides compute the same version -/
theorem biggestCommon_symm (a b : List Nat) (m : Nat) (h : biggestCommon a b = some m) :
    biggestCommon b a = some m := by
  obtain ⟨h1, h2⟩ := biggestCommon_spec a b
  obtain ⟨g1, g2⟩ := biggestCommon_spec b a
  obtain ⟨ma, mb, mx⟩ := h1 m h
  cases hr : biggestCommon b a with
  | none => exact absurd ma (g2 hr m mb)
  | some m' =>
    obtain ⟨ma', mb', mx'⟩ := g1 m' hr
    have := mx m' mb' ma'
    have := mx' m mb ma
    congr 1; omega

/-! ### the cache (as implemented today: the value is stored even when the computation failed) -/

inductive Res | ok (v : Nat) | err
deriving DecidableEq, Repr

/-- `getOrStoreHighestVersion` for a peer advertising `peer` (`none` = no `pv` entry);
    `quirk` = store on error (what the code does today) -/
def getOrStore (quirk : Bool) (own : List Nat) (cache : Option Nat) (peer : Option (List Nat)) :
    Option Nat × Res :=
  match cache with
  | some v => (cache, .ok v)
  | none =>
    match peer with
    | none => (some (own.headD 0), .ok (own.headD 0))
    | some pv =>
      match biggestCommon own pv with
      | some v => (some v, .ok v)
      | none => (if quirk then some 0 else none, .err)

def run (quirk : Bool) (own : List Nat) (peer : Option (List Nat)) : Nat → Option Nat → List Res
  | 0, _ => []
  | n + 1, cache => let (c, r) := getOrStore quirk own cache peer; r :: run quirk own peer n c

/-- ideal model: with no common version *every* call fails, however often it is repeated -/
theorem no_common_always_error (own pv : List Nat) (h : biggestCommon own pv = none) (n : Nat) :
    ∀ r ∈ run false own (some pv) n none, r = .err := by
  induction n with
  | zero => simp [run]
  | succ n ih =>
    intro r hr
    simp only [run, getOrStore, h] at hr
    simp only [Bool.false_eq_true, if_false, List.mem_cons] at hr
    rcases hr with rfl | hr
    · rfl
    · exact ih r hr

/-- as implemented: the second call succeeds with version 0 (witness of the finding) -/
theorem quirk_cached_error_breaks_C19 :
    biggestCommon [0] [3] = none ∧ run true [0] (some [3]) 2 none = [.err, .ok 0] := by
  decide

#print axioms biggestCommon_spec
#print axioms no_common_always_error
end Vs
