namespace Leb
def enc (v : Nat) : List Nat :=
  if h : v < 128 then [v] else (v % 128 + 128) :: enc (v / 128)
termination_by v
decreasing_by omega

def decAux (i s acc : Nat) : List Nat → Option (Nat × Nat)
  | [] => none
  | b :: rest =>
    if i ≥ 5 then none
    else if b < 128 then
      if i = 4 ∧ b ≥ 16 then none
      else some (acc + b * 2 ^ s, i + 1)
    else decAux (i+1) (s+7) (acc + (b % 128) * 2 ^ s) rest

def dec (l : List Nat) : Option (Nat × Nat) := decAux 0 0 0 l

theorem decAux_enc (v : Nat) : ∀ (i s acc : Nat) (rest : List Nat),
    i ≤ 4 → v < 2 ^ (32 - 7 * i) →
    decAux i s acc (enc v ++ rest) = some (acc + v * 2 ^ s, i + (enc v).length) := by
  induction v using Nat.strongRecOn with
  | _ v ih =>
    intro i s acc rest hi hv
    rw [enc]
    split
    next hlt =>
      simp only [List.singleton_append, decAux, List.length_singleton]
      have h5 : ¬ i ≥ 5 := by omega
      simp only [h5, if_false, hlt, if_true]
      have : ¬ (i = 4 ∧ v ≥ 16) := by
        rintro ⟨rfl, h16⟩
        simp at hv
        omega
      simp [this]
    next hge =>
      simp only [List.cons_append, decAux, List.length_cons]
      have h5 : ¬ i ≥ 5 := by omega
      have hb : ¬ (v % 128 + 128 < 128) := by omega
      simp only [h5, if_false, hb]
      have hi4 : i < 4 := by
        rcases Nat.lt_or_ge i 4 with h | h
        · exact h
        · have : i = 4 := by omega
          subst this
          simp at hv
          omega
      have hv' : v / 128 < 2 ^ (32 - 7 * (i+1)) := by
        have e : 32 - 7 * i = (32 - 7 * (i+1)) + 7 := by omega
        rw [e, Nat.pow_add] at hv
        exact Nat.div_lt_of_lt_mul (by simpa [Nat.mul_comm] using hv)
      rw [ih (v/128) (by omega) (i+1) (s+7) _ rest (by omega) hv']
      have e1 : (v % 128 + 128) % 128 = v % 128 := by omega
      simp only [e1, Option.some.injEq, Prod.mk.injEq]
      constructor
      · have hvd : v = 128 * (v / 128) + v % 128 := (Nat.div_add_mod v 128).symm
        rw [Nat.pow_add]
        generalize v / 128 = q at *
        generalize v % 128 = r at *
        subst hvd
        have : (2:Nat)^7 = 128 := by decide
        rw [this]
        simp only [Nat.add_mul, Nat.mul_assoc]
        have c : q * (2 ^ s * 128) = 128 * (q * 2 ^ s) := by
          rw [Nat.mul_comm (2^s) 128, ← Nat.mul_assoc, Nat.mul_comm q 128, Nat.mul_assoc]
        omega
      · omega

theorem dec_enc (v : Nat) (rest : List Nat) (h : v < 2^32) :
    dec (enc v ++ rest) = some (v, (enc v).length) := by
  have := decAux_enc v 0 0 0 rest (by omega) (by simpa using h)
  simpa [dec] using this
end Leb
