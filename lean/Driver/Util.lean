/-! Shared helpers of the line-protocol driver: hex, the compact byte-string notation,
    canonical rendering of long byte strings (length + FNV-1a 64), field access. Core only. -/
namespace Drv

def hexVal (c : Char) : Nat :=
  if c.isDigit then c.toNat - '0'.toNat
  else if 'a'.toNat ≤ c.toNat ∧ c.toNat ≤ 'f'.toNat then c.toNat - 'a'.toNat + 10
  else c.toNat - 'A'.toNat + 10

partial def hexGo : List Char → List Nat → List Nat
  | a :: b :: rest, acc => hexGo rest ((hexVal a * 16 + hexVal b) :: acc)
  | _, acc => acc.reverse

/-- lower-case hex string → bytes; "-" and "" are the empty string -/
def unhex (s : String) : List Nat := if s == "-" then [] else hexGo s.toList []

def hexDigit (n : Nat) : Char := if n < 10 then Char.ofNat (48 + n) else Char.ofNat (87 + n)

def hex (l : List Nat) : String :=
  if l.isEmpty then "-" else String.ofList (l.foldr (fun b acc => hexDigit (b / 16) :: hexDigit (b % 16) :: acc) [])

def hexNat (n : Nat) (digits : Nat) : String :=
  String.ofList ((List.range digits).reverse.map fun i => hexDigit ((n / 16 ^ i) % 16))

def fnv (l : List Nat) : UInt64 :=
  l.foldl (fun h b => (h ^^^ b.toUInt64) * 0x100000001b3) 0xcbf29ce484222325

/-- canonical rendering: hex when short, `#len:fnv64` otherwise (same rule in the Go harness) -/
def canon (l : List Nat) : String :=
  if l.length ≤ 48 then hex l else "#" ++ toString l.length ++ ":" ++ hexNat (fnv l).toNat 16

/-- pseudo-random bytes shared with the harness: byte i of `r<len>:<seed>` -/
def genBytes (len seed : Nat) : List Nat :=
  (List.range len).map fun i => (seed * 31 + i * 7 + (i / 256) * 13) % 256

/-- FNV-1a of `genBytes len seed` without building the list -/
def fnvGen (len seed : Nat) : UInt64 := Id.run do
  let mut h : UInt64 := 0xcbf29ce484222325
  for i in [0:len] do
    let b := (seed * 31 + i * 7 + (i / 256) * 13) % 256
    h := (h ^^^ b.toUInt64) * 0x100000001b3
  return h

/-- one term of the byte notation: `x<hex>` or `r<len>:<seed>` -/
def parseTerm (s : String) : List Nat :=
  match s.toList with
  | 'x' :: rest => hexGo rest []
  | 'r' :: rest =>
    match (String.ofList rest).splitOn ":" with
    | [a, b] => genBytes a.toNat! b.toNat!
    | _ => []
  | _ => []

/-- `t1+t2+…` concatenation of terms; `-` is empty -/
def parseBytes (s : String) : List Nat :=
  if s == "-" then [] else (s.splitOn "+").flatMap parseTerm

/-- `b1,b2,…` list of byte strings; `-` is the empty list -/
def parseItems (s : String) : List (List Nat) :=
  if s == "-" then [] else (s.splitOn ",").map parseBytes

def canonItems (xs : List (List Nat)) : String :=
  if xs.isEmpty then "-" else ",".intercalate (xs.map canon)

def words (s : String) : List String := (s.splitOn " ").filter (· ≠ "")

/-- value of `key=value` among tokens -/
def kv (toks : List String) (k : String) : String :=
  match toks.find? (fun t => t.startsWith (k ++ "=")) with
  | some t => (t.drop (k.length + 1)).toString
  | none => ""

def kvNat (toks : List String) (k : String) : Nat := (kv toks k).toNat!

/-- result of processing one line -/
structure Res where
  model : String          -- model's canonical output
  monitor : List String := []   -- names of property clauses violated by the IMPLEMENTATION output
  tags : List String := []      -- coverage tags of this case
  nontrivial : Bool := true
  skipCompare : Bool := false   -- relation mode: only the monitors apply
  implView : Option String := none  -- projection of the implementation output that `model` is compared with
deriving Inhabited

/-- keep the first token when it is not a key=value pair, and the listed keys -/
def project (keys : List String) (s : String) : String :=
  " ".intercalate ((words s).filter fun t =>
    match t.splitOn "=" with
    | [_] => true
    | k :: _ => keys.contains k
    | [] => false)

end Drv
