import Shisui.History.Content
import Shisui.History.Gate
import Driver.Util
/-! C02 driver: history content validation.

Every line carries the key bytes and the *observations* the harness computed with go-ethereum, independently of the
validator: what the content decodes to (`c=`), the header the header source answered for the key's hash (`src=`) and,
when the key's hash is that of a block the harness knows, that block's header (`truth=`). The model (`Hc.validateKey`,
`Hc.lookup`, `Hg.gate`, `Hg.getter`, with the quirk switches given on the command line) recomputes the implementation's
verdict; the monitors evaluate the clauses of the property on the IMPLEMENTATION's verdict and never look at the
switches. -/
namespace Drv.C02
open Drv Hc

def optBytes (s : String) : Option Bytes := if s == "-" then none else some (unhex s)

/-- `<hash>:<number>:<tx>:<uncle>:<wd|->:<receipts>` -/
def parseHdr (s : String) : Option Hdr :=
  match s.splitOn ":" with
  | [h, n, tx, un, wd, rc] =>
    some { hash := unhex h, number := n.toNat!, txRoot := unhex tx, uncleRoot := unhex un, wdRoot := optBytes wd,
           receiptRoot := unhex rc }
  | _ => none

def parsePV (s : String) : PV := if s == "ok" then .ok else if s == "panic" then .panic else .err

def parseContent (s : String) : Content :=
  match s.splitOn ":" with
  | ["hdr", h, n, pv] =>
    .header { hash := unhex h, number := n.toNat!, txRoot := [], uncleRoot := [], wdRoot := none, receiptRoot := [] } (parsePV pv)
  | ["body", tx, un, wd] => .body { txRoot := unhex tx, uncleRoot := unhex un, wdRoot := optBytes wd }
  | ["rcpt", root, e] => .receipts (unhex root) (e == "1")
  | _ => .undecodable

def parseQuirks (s : String) : Quirks :=
  let fs := s.splitOn ","
  { oracleUnbound := fs.contains "oracle_unbound",
    legacyBodySkipsWithdrawals := fs.contains "legacy_body_skips_withdrawals",
    nilWithdrawalsHashDeref := fs.contains "nil_withdrawals_hash_deref",
    headerProofPanics := fs.contains "header_proof_panics",
    emptyKeyPanics := fs.contains "empty_key_panics" }

def showOut : Out → String
  | .ok => "ok" | .err => "err" | .panic => "panic"

/-- one observed (key, content, source) triple -/
structure Obs where
  key : Bytes
  c : Content
  src : Option Hdr
  truth : Option Hdr
  cid : String := ""
  pre : Bool := false

def parseObs (toks : List String) : Obs :=
  let src := parseHdr (kv toks "src")
  let t := kv toks "truth"
  { key := unhex (kv toks "key"), c := parseContent (kv toks "c"), src := src,
    truth := if t == "=" then src else parseHdr t, cid := kv toks "cid", pre := kv toks "pre" == "1" }

def bodyMatches (b : Body) (hd : Hdr) : Bool :=
  b.txRoot == hd.txRoot && b.uncleRoot == hd.uncleRoot && b.wdRoot == hd.wdRoot

def receiptsMatch (root : Bytes) (empty : Bool) (hd : Hdr) : Bool :=
  if hd.receiptRoot == emptyReceiptRoot then empty else root == hd.receiptRoot

/-- the clauses of "accepted ⇒ bound to the key" that fail for an ACCEPTED pair; no reference to model or switches.
    Bodies/receipts: bound means some header whose recomputed hash is the key's carries these roots; the headers known to the
    check are the one the source answered and the harness's own copy of the block with that hash. -/
def acceptedViolations (o : Obs) : List String :=
  match parseKey o.key with
  | none => ["malformed_key_rejected"]
  | some k =>
    match k, o.c with
    | .headerByHash h, .header hd pv =>
      (if hd.hash == h then [] else ["header_hash_matches_key"]) ++ (if pv == .ok then [] else ["header_proof_verifies"])
    | .headerByNumber n, .header hd pv =>
      (if hd.number == n then [] else ["header_number_matches_key"]) ++ (if pv == .ok then [] else ["header_proof_verifies"])
    | .body h, .body b =>
      let cands := ([o.src, o.truth].filterMap id).filter (·.hash == h)
      if cands.any (bodyMatches b) then [] else
      match o.src with
      | some hd =>
        if hd.hash != h then ["header_source_bound_to_key_hash"]
        else (if b.txRoot == hd.txRoot then [] else ["body_tx_root"]) ++
             (if b.uncleRoot == hd.uncleRoot then [] else ["body_uncle_root"]) ++
             (if b.wdRoot == hd.wdRoot then [] else ["body_withdrawals_root"])
      | none => ["header_source_bound_to_key_hash"]
    | .receipts h, .receipts root empty =>
      let cands := ([o.src, o.truth].filterMap id).filter (·.hash == h)
      if cands.any (receiptsMatch root empty) then [] else
      match o.src with
      | some hd => if hd.hash != h then ["header_source_bound_to_key_hash"] else ["receipts_root"]
      | none => ["header_source_bound_to_key_hash"]
    | _, _ => ["undecodable_content_rejected"]

/-- "rejected with an error": which site a panic came from, read off the observations -/
def panicClause (o : Obs) : String :=
  if o.key.isEmpty then "no_panic_empty_key" else
  match parseKey o.key, o.c, o.src with
  | some (.headerByHash _), .header _ .panic, _ => "no_panic_header_proof"
  | some (.headerByNumber _), .header _ .panic, _ => "no_panic_header_proof"
  | some (.body _), .body b, some hd => if b.wdRoot.isSome && hd.wdRoot.isNone then "no_panic_nil_withdrawals_hash" else "no_panic"
  | _, _, _ => "no_panic"

def ktTag (key : Bytes) : String :=
  match key with
  | [] => "key-empty"
  | 0 :: _ => "key-hash" | 1 :: _ => "key-body" | 2 :: _ => "key-receipts" | 3 :: _ => "key-number"
  | _ => "key-other"

def cTag : Content → String
  | .header _ .ok => "c-header-proof-ok" | .header _ .err => "c-header-proof-err" | .header _ .panic => "c-header-proof-panic"
  | .body b => if b.wdRoot.isSome then "c-body-shanghai" else "c-body-legacy"
  | .receipts _ e => if e then "c-receipts-empty" else "c-receipts"
  | .undecodable => "c-undecodable"

def mutClass (m : String) : String :=
  if m.startsWith "f-" then "mut-field" else if m.startsWith "p-" then "mut-proof-field" else if m.startsWith "k-" then "mut-key"
  else if m.startsWith "cross" then "mut-cross" else "mut-" ++ m

def vcStep (q : Quirks) (toks : List String) (impl : String) : Res :=
  let o := parseObs toks
  let m := validateKey q (fun _ => o.src) o.key o.c
  let ideal := validateKey {} (fun _ => o.src) o.key o.c
  let mon := if impl == "ok" then acceptedViolations o
             else if impl == "panic" then [panicClause o]
             else if impl == "err" then [] else ["bad_output"]
  -- which switches this case's verdict depends on (the decided witnesses of Props.C02 recur in every run)
  let v (q' : Quirks) := validateKey q' (fun _ => o.src) o.key o.c
  let deps := (if v { q with oracleUnbound := !q.oracleUnbound } != m then ["dep-oracle_unbound"] else [])
    ++ (if v { q with legacyBodySkipsWithdrawals := !q.legacyBodySkipsWithdrawals } != m then ["dep-legacy_body_skips_withdrawals"] else [])
    ++ (if v { q with nilWithdrawalsHashDeref := !q.nilWithdrawalsHashDeref } != m then ["dep-nil_withdrawals_hash_deref"] else [])
    ++ (if v { q with headerProofPanics := !q.headerProofPanics } != m then ["dep-header_proof_panics"] else [])
    ++ (if v { q with emptyKeyPanics := !q.emptyKeyPanics } != m then ["dep-empty_key_panics"] else [])
  { model := showOut m, monitor := mon,
    tags := ["vc", ktTag o.key, cTag o.c, mutClass (kv toks "mut"), "src-" ++ kv toks "sk", "model-" ++ showOut m]
            ++ (if m != ideal then ["differs-from-ideal"] else []) ++ deps,
    nontrivial := o.c != .undecodable }

def orcStep (q : Quirks) (toks : List String) (impl : String) : Res :=
  let req := unhex (kv toks "req")
  let resp := parseHdr (kv toks "resp")
  let m := match lookup q (fun _ => resp) req with
    | some hd => "hdr=" ++ hex hd.hash
    | none => "err"
  let mon := if impl.startsWith "hdr=" then (if unhex (impl.drop 4).toString == req then [] else ["oracle_returns_requested_header"])
             else if impl == "err" then [] else if impl == "panic" then ["no_panic"] else ["bad_output"]
  { model := m, monitor := mon,
    tags := ["orc", "src-" ++ kv toks "sk", "req-" ++ kv toks "mut", if m == "err" then "model-err" else "model-hdr"],
    nontrivial := resp.isSome }

/-- split the tokens of a `gate`/`get` line at the `;` separators -/
def groups (toks : List String) : List (List String) :=
  (toks.foldr (fun t acc => if t == ";" then [] :: acc else match acc with | g :: rest => (t :: g) :: rest | [] => [[t]]) [[]])

instance : Inhabited Obs := ⟨{ key := [], c := .undecodable, src := none, truth := none }⟩

structure Item where
  idx : Nat
  o : Obs
deriving Inhabited

def itemValidate (q : Quirks) (k : Bytes) (it : Item) : Out := validateKey q (fun _ => it.o.src) k it.o.c

def csvNat (l : List Nat) : String := if l.isEmpty then "-" else ",".intercalate (l.map toString)

def gateStep (q : Quirks) (toks : List String) (impl : String) : Res :=
  let gs := (groups toks).drop 1
  let items : List Item := gs.zipIdx.map fun p => { idx := p.2, o := parseObs p.1 }
  let pre : Hg.Store Bytes Item := (items.filter (·.o.pre)).map fun it => (it.o.key, it)
  let r := Hg.gate (itemValidate q) pre (items.map fun it => (it.o.key, it))
  let m := s!"out={showOut r.2.2} puts={csvNat (r.2.1.map (·.2.idx))}"
  let it := words impl
  let implPuts := kv it "puts"
  let putIdx : List String := if implPuts == "-" then [] else implPuts.splitOn ","
  -- everything the implementation stored must be bound to its key
  let stored := putIdx.flatMap fun s =>
    match s.toNat? with
    | none => ["stored_only_offered_items"]
    | some j => match items[j]? with
      | some x => (acceptedViolations x.o).map ("stored_" ++ ·)
      | none => ["stored_only_offered_items"]
  let sites := (items.map fun x => panicClause x.o).filter (· != "no_panic")
  let mon := stored ++ (if kv it "out" == "panic" then [sites.headD "no_panic"] else [])
  { model := m, monitor := mon.eraseDups,
    tags := ["gate", s!"items{items.length}", "gate-" ++ showOut r.2.2, s!"puts{r.2.1.length}"]
            ++ (if items.any (·.o.pre) then ["gate-prestored"] else []),
    nontrivial := r.2.1.length > 0 || r.2.2 != .ok }

/-- a block getter: `get kind=… local=<0|1> remote=<0|1> ; <local obs> ; <remote obs> | ret=<ok|err|panic> put=<0|1>` -/
def getStep (q : Quirks) (toks : List String) (impl : String) : Res :=
  let gs := groups toks
  let head := gs.headD []
  let hasLocal := kv head "local" == "1"
  let hasRemote := kv head "remote" == "1"
  let lo : Item := { idx := 0, o := parseObs (gs.getD 1 []) }
  let ro : Item := { idx := 1, o := parseObs (gs.getD 2 []) }
  let key := if hasLocal then lo.o.key else ro.o.key
  let st : Hg.Store Bytes Item := if hasLocal then [(key, lo)] else []
  -- the getters decode what they return: content that does not decode is an error (the empty receipt list of a block
  -- without transactions is the empty byte string; since 308affd `PortalReceipts.UnmarshalSSZ` decodes it)
  let dec : Item → Option Nat := fun x => match x.o.c with
    | .undecodable => none
    | _ => some x.idx
  let r := Hg.getter (itemValidate q) dec st (fun _ => if hasRemote then some ro else none) key
  let ret := match r.2.2.2, r.2.2.1 with
    | .panic, _ => "panic"
    | _, some _ => "ok"
    | _, none => "err"
  let m := s!"ret={ret} put={if r.2.1.isSome then 1 else 0}"
  let it := words impl
  -- what is returned from a remote lookup, and what is stored, must be bound to the key
  let mon := if hasLocal then [] else
    (if kv it "ret" == "ok" then (if hasRemote then (acceptedViolations ro.o).map ("returned_" ++ ·) else ["returned_without_content"]) else [])
    ++ (if kv it "put" == "1" then (if hasRemote then (acceptedViolations ro.o).map ("stored_" ++ ·) else ["stored_only_offered_items"]) else [])
    ++ (if kv it "ret" == "panic" then [panicClause ro.o] else [])
  { model := m, monitor := mon.eraseDups,
    tags := ["get", "get-" ++ kv head "kind", if hasLocal then "get-local" else if hasRemote then "get-remote" else "get-notfound", "get-" ++ ret],
    nontrivial := hasLocal || hasRemote }

def step (q : Quirks) (toks : List String) (impl : String) : Res :=
  match toks.head? with
  | some "vc" => vcStep q toks impl
  | some "orc" => orcStep q toks impl
  | some "gate" => gateStep q toks impl
  | some "get" => getStep q toks impl
  | _ => { model := "bad-op", tags := ["bad-op"], nontrivial := false }

end Drv.C02
