import Shisui.Offer
import Shisui.OfferLifecycle
import Driver.Util
/-! C09 driver: `handleOffer` (step equality on the decoded ACCEPT), end-to-end offers between two real instances (what
    reaches the validation queue), `handleOfferedContents` on streams with a wrong item count. -/
namespace Drv.C09
open Drv Of

def bitAt (s : String) (i : Nat) : Bool := (s.toList.getD i '0') == '1'

def stepOffer (quirkV0 : Bool) (toks : List String) (impl : String) : Res :=
  let v := kvNat toks "v"
  let slots := kv toks "slots"
  let ks := kv toks "keys"
  let descs : List String := if ks == "-" then [] else ks.splitOn ","
  let keys := List.range descs.length
  let e : Env := { inRange := fun k => bitAt (descs.getD k "") 0, stored := fun k => bitAt (descs.getD k "") 1,
                   inflight := fun k => bitAt (descs.getD k "") 2, queueFull := slots == "ample-queuefull" }
  let permit := slots != "none"
  if v ≥ 2 then { model := "error", tags := ["offer", "v2"] } else
  let r := handleOffer quirkV0 v e permit 7 keys
  let vs := if r.verdicts.isEmpty then "-" else ",".intercalate (r.verdicts.map Verdict.name)
  let m := s!"verdicts={vs} conn={if r.connId.isSome then 1 else 0}"
  -- the property's clauses on the implementation's reply
  let it := words impl
  let ivs : List String := let x := kv it "verdicts"; if x == "-" || x == "" then [] else x.splitOn ","
  let conn := kv it "conn" == "1"
  let accIdx := (List.range ivs.length).filter fun i => ivs.getD i "" == "accepted"
  let mon := (if it.headD "" == "error" || it.headD "" == "undecodable" || it.headD "" == "badreply" then ["reply_wellformed"] else
      (if ivs.length != keys.length then ["one_verdict_per_key"] else [])
      ++ (if accIdx.any (fun i => !(e.inRange i && !e.stored i && (v == 0 || !e.inflight i) && permit)) then ["accepted_only_if"] else [])
      ++ (if conn != !accIdx.isEmpty then ["connid_iff_accepted"] else []))
  { model := m, monitor := mon,
    tags := ["offer", s!"v{v}", "slots-" ++ slots, s!"keys{min keys.length 9}", if r.connId.isSome then "conn" else "noconn"]
            ++ (r.verdicts.map Verdict.name).eraseDups,
    nontrivial := keys.length > 0 }

def stepOffer2 (toks : List String) (impl : String) : Res :=
  let items := (kv toks "items").splitOn ","
  let parsed := items.zipIdx.map fun (s, i) => (i, s.startsWith "1", ((s.splitOn "/").getD 1 ""))
  let acc := parsed.filter fun p => !p.2.1
  let m := if acc.isEmpty then "queue=-" else
    "queue=" ++ ",".intercalate (acc.map fun p => s!"{p.1}/{p.2.2}") ++ " from=1"
  { model := m, monitor := if impl == m then [] else ["accepted_contents_paired_with_keys"],
    tags := ["offer2", "va" ++ kv toks "va", "vb" ++ kv toks "vb", s!"accepted{acc.length}"], nontrivial := acc.length > 0 }

def stepOffered (toks : List String) (impl : String) : Res :=
  let k := kvNat toks "keys"
  let itemsS := kv toks "items"
  let ok := itemsS != "-1" && itemsS.toNat! == k
  let m := if ok then s!"ok queue={k}/{k}" else "err queue=-"
  { model := m, monitor := if !ok && impl != "err queue=-" then ["count_mismatch_dropped"] else [],
    tags := ["offered", if ok then "count-match" else "count-mismatch"] }

def step (quirkV0 : Bool) (toks : List String) (impl : String) : Res :=
  match toks.head? with
  | some "offer" => stepOffer quirkV0 toks impl
  | some "offer2" => stepOffer2 toks impl
  | some "offered" => stepOffered toks impl
  | some "offerfollowup" =>
    -- the transfer of an accepted offer completes; a further, empty stream on the same connection id is a stream with a
    -- different item count and is discarded
    let k := kvNat toks "keys"
    { model := s!"first=items{k} second_enqueued=0",
      monitor := if kv (words impl) "second_enqueued" == "1" then ["count_mismatch_dropped"] else [], tags := ["offerfollowup"] }
  | some "inflight" =>
    -- a history of version-1 offers over a pool of fresh in-range keys: `p:` the peer never connects (its accepted keys
    -- stay in flight), `c:` the transfer ends at once (its own accepted keys are cleared, nothing else)
    let ops := (kv toks "ops").splitOn ";"
    let r := ops.foldl (fun (acc : Ofl.St × List String × Nat) op =>
      -- `p:` / `c:` version 1, `P:` pending version 0 (bit list: accepted / declined)
      let keys := ((op.drop 2).toString.splitOn ".").filterMap String.toNat?
      let v := if op.startsWith "P:" then 0 else 1
      let st := Ofl.stepM acc.1 (.offer v keys)
      let out := ",".intercalate (st.2.map Verdict.name)
      let s' := if op.startsWith "c:" then (Ofl.stepM st.1 (.finish acc.2.2)).1 else st.1
      (s', acc.2.1 ++ [out], acc.2.2 + 1)) (({} : Ofl.St), [], 0)
    let m := "/".intercalate r.2.1
    let nC := (ops.filter (·.startsWith "c:")).length
    { model := m, monitor := if impl == m then [] else ["accepted_only_if_not_already_being_received"],
      tags := ["inflight", s!"ends{nC}"], nontrivial := ops.length > 2 }
  | some "overlap" =>
    -- two version-1 offers of the same fresh in-range key, back to back: the first is accepted and is being received
    -- when the second is answered (Of.verdictV1 with inflight = true)
    let e1 : Env := { inRange := fun _ => true, stored := fun _ => false, inflight := fun _ => false, queueFull := false }
    let e2 : Env := { e1 with inflight := fun _ => true }
    let r1 := handleOffer false 1 e1 true 7 [0]
    let r2 := handleOffer false 1 e2 true 7 [0]
    let sh (r : Reply) := s!"verdicts={",".intercalate (r.verdicts.map Verdict.name)} conn={if r.connId.isSome then 1 else 0}"
    let m := sh r1 ++ " / " ++ sh r2
    { model := m, monitor := if impl == m then [] else ["accepted_only_if_not_already_being_received"], tags := ["overlap"] }
  | _ => { model := "bad-op", tags := ["bad-op"], nontrivial := false }

end Drv.C09
