import Shisui.FindNodes
import Shisui.FindNodesRel
import Driver.Util
/-! C11 driver. Responder (`handleFindNodes`): a decidable relation, because every bucket is shuffled — walking the
    requested distances (repeats and values above 256 dropped) the reply must be a concatenation of duplicate-free
    selections from each distance's candidate set (self for 0; verified entries of `bucketAtDistance d`; relay-safe for
    the asker), each segment complete unless the reply ends inside it, within the size budget, and maximal.
    Asker (`processNodes`/`filterNodes`): step equality with `Fnn.filterNodes`. -/
namespace Drv.C11
open Drv

open Fnr

/-- maxPacketSize − talkRespOverhead − (msg id + total + container offset) -/
def budget : Nat := 1280 - 103 - 6

def parseTab (s : String) : List TN :=
  if s == "-" then [] else (s.splitOn ",").map fun e =>
    let p := e.splitOn ":"
    ({ id := (p.getD 0 "").toNat!, bucket := (p.getD 1 "").toNat!, live := p.getD 2 "" == "1", cls := p.getD 3 "", size := (p.getD 4 "").toNat! } : TN)

def parseNats (s : String) : List Nat := if s == "-" || s == "" then [] else (s.splitOn ",").filterMap String.toNat?

def stepResponder (toks : List String) (impl : String) : Res :=
  let asker := kv toks "asker"
  let sp := (kv toks "self").splitOn ":"
  let selfN : TN := { id := 0, bucket := 999, live := true, cls := sp.getD 0 "", size := (sp.getD 1 "0").toNat! }
  let dists := parseNats (kv toks "dists")
  let tab := parseTab (kv toks "tab")
  let it := words impl
  if it.length < 3 then { model := "", skipCompare := true, monitor := ["reply_wellformed"], tags := ["findnodes", "err"] } else
  let res := parseNats (kv it "ids")
  let len := kvNat it "len"
  let segs := (cleanDists dists []).map (cands tab selfN asker)
  let c := consume segs res
  let sizeOf (i : Nat) : Nat := if i = 0 then selfN.size else ((tab.find? (·.id == i)).map (·.size)).getD 0
  let used := (res.map (fun i => sizeOf i + 4)).foldl (· + ·) 0
  let nextSeg := (c.2.find? (fun s => !s.isEmpty)).getD []
  let maximal := nextSeg.isEmpty || res.length ≥ 32 || nextSeg.any (fun n => used + n.size + 4 > budget)
  let candAll := segs.flatten
  let mon := (if len + 103 > 1280 then ["fits_one_packet"] else [])
    ++ (if res.length > 32 then ["at_most_32"] else [])
    ++ (if res.any (fun i => !(candAll.any (·.id == i))) then ["only_self_or_live_covered_relay_safe"] else [])
    ++ (if !c.1 then ["segments_in_request_order"] else [])
    ++ (if used > budget then ["size_budget"] else [])
    ++ (if c.1 && !maximal then ["reply_maximal"] else [])
    ++ (if kv it "total" != "1" then ["total_is_one"] else [])
  { model := "", skipCompare := true, monitor := mon,
    tags := ["findnodes", "asker-" ++ asker, s!"res{min res.length 17}", if dists.contains 0 then "d0" else "nod0",
             if !nextSeg.isEmpty then "truncated" else "complete"],
    nontrivial := !res.isEmpty }

def stepAsker (toks : List String) (impl : String) : Res :=
  let req := parseNats (kv toks "req")
  let recsS := kv toks "recs"
  let recs : List (Nat × Fnn.Rec) := if recsS == "-" then [] else
    (recsS.splitOn ",").zipIdx.map fun (e, j) =>
      let p := e.splitOn ":"
      -- idIdx:signed:dist:port:class:senderClass:relayGo:onAllowList
      (j, ({ id := (p.getD 0 "").toNat!, signed := p.getD 1 "" == "1", relayOk := relayOk (p.getD 5 "") (p.getD 4 ""),
             inNetrestrict := p.getD 7 "1" == "1", udp := (p.getD 3 "").toNat!, dist := (p.getD 2 "").toNat! } : Fnn.Rec))
  -- the Lean rendering of CheckRelayIP by class must agree with the real function
  let relayMis := if recsS == "-" then false else (recsS.splitOn ",").any fun e =>
      let p := e.splitOn ":"
      p.getD 1 "" == "1" && (relayOk (p.getD 5 "") (p.getD 4 "") != (p.getD 6 "" == "1"))
  let accepted := Fnn.filterNodes (some req) [] (recs.map (·.2))
  -- accepted records are reported by id index (= position of the first record carrying that id)
  let accPos := accepted.map (·.id)
  let m := "accepted=" ++ (if accPos.isEmpty then "-" else ",".intercalate (accPos.map toString))
  -- the property's clause on the implementation's own answer: every record it used must be signed, at a requested
  -- distance, relay-safe, on a port above 1024, and used once
  let implAcc := parseNats ((impl.splitOn "=").getD 1 "")
  let okRec (id : Nat) : Bool := recs.any fun p => p.2.id == id && p.2.signed && p.2.relayOk && p.2.udp > 1024 && req.contains p.2.dist
  let bad := impl.startsWith "accepted=" && (implAcc.any (fun id => !okRec id) || implAcc.eraseDups.length != implAcc.length)
  { model := m, monitor := (if relayMis then ["relay_class_rendering"] else []) ++ (if bad then ["record_used_only_if"] else []),
    tags := ["nodesresp", s!"acc{accepted.length}", s!"n{recs.length}", if req.isEmpty then "req-empty" else "req-some"], nontrivial := recs.length ≥ 2 }

def step (toks : List String) (impl : String) : Res :=
  match toks.head? with
  | some "findnodes" => stepResponder toks impl
  | some "nodesresp" => stepAsker toks impl
  | some "fnseeding" =>
    -- the table is still seeding: its boot nodes were never liveness-checked, so none of them is offered
    { model := "offered=0", monitor := if impl == "offered=0" then [] else ["only_liveness_checked_entries_while_seeding"],
      tags := ["fnseeding", s!"intable{kvNat toks "intable"}"] }
  | some "concfindnodes" =>
    -- replies built at the same time for askers with different distances: each holds only records at ITS requested distance
    { model := "badreplies=0 badrecords=0",
      monitor := if impl == "badreplies=0 badrecords=0" then [] else ["only_requested_distances_when_asked_concurrently"],
      tags := ["concfindnodes"] }
  | _ => { model := "bad-op", tags := ["bad-op"], nontrivial := false }

end Drv.C11
