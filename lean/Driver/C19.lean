import Shisui.Versions
import Driver.Util
/-! C19 driver: version negotiation (findBiggestSameNumber, getOrStoreHighestVersion with its cache). -/
namespace Drv.C19
open Drv Vs

def parseCsv (s : String) : List Nat := if s == "-" || s == "" then [] else (s.splitOn ",").map String.toNat!

def showRes : Vs.Res → String
  | .ok v => s!"ok:{v}"
  | .err => "err"

/-- highest value in both lists, by definition (the specification, not the implementation's fold) -/
def specMax (a b : List Nat) : Option Nat :=
  (a.filter (b.contains ·)).foldl (fun acc v => match acc with | none => some v | some m => some (max m v)) none

def step (quirk : Bool) (toks : List String) (impl : String) : Drv.Res :=
  match toks.head? with
  | some "fbsn" =>
    let a := parseCsv (kv toks "a")
    let b := parseCsv (kv toks "b")
    let m := match biggestCommon a b with | some v => s!"ok:{v}" | none => "err"
    let spec := match specMax a b with | some v => s!"ok:{v}" | none => "err"
    { model := m, monitor := if impl == spec then [] else ["highest_common"],
      tags := ["fbsn", if (specMax a b).isSome then "common" else "nocommon"], nontrivial := !a.isEmpty && !b.isEmpty }
  | some "gos" =>
    let own := parseCsv (kv toks "own")
    let peerS := kv toks "peer"
    let calls := kvNat toks "calls"
    let implRes := impl.splitOn ","
    if peerS == "bad" then
      -- an undecodable entry: every call fails, nothing is cached
      let m := ",".intercalate (List.replicate calls "err")
      { model := m, monitor := if implRes.all (· == "err") then [] else ["malformed_entry_is_error"], tags := ["gos", "peer-bad"] }
    else
      let peer : Option (List Nat) := if peerS == "none" then none else some (parseCsv peerS)
      let rs := run quirk own peer calls none
      let m := ",".intercalate (rs.map showRes)
      let expect : String := match peer with
        | none => s!"ok:{own.headD 0}"
        | some pv => match specMax own pv with | some v => s!"ok:{v}" | none => "err"
      let mon := if expect == "err" then
          (if implRes.all (· == "err") then [] else ["no_common_always_error"])
        else (if implRes.all (· == expect) then [] else ["highest_common"])
      { model := m, monitor := mon,
        tags := ["gos", if peerS == "none" then "peer-none" else if expect == "err" then "no-common" else "common", s!"calls{calls}"] }
  | some "frame" =>
    -- both sides frame by the negotiated version: the round trip must succeed for every version; which framing a version
    -- above 1 uses is left open (compared for 0 and 1 only)
    let v := kvNat toks "v"
    let it := words impl
    let m := s!"rt=same prefixed={if v == 1 then 1 else 0}"
    { model := m, monitor := if kv it "rt" == "same" then [] else ["framing_agrees_for_negotiated_version"],
      tags := ["frame", s!"v{v}"], skipCompare := v ≥ 2 }
  | _ =>
    if toks.head? == some "offerafterfail" then
      -- negotiations that failed with OTHER peers cost a pairing that shares a version nothing: its offer still goes through
      { model := "delivered=1", monitor := if impl == "delivered=1" then [] else ["shared_version_pairing_served_after_failed_negotiations"],
        tags := ["offerafterfail", "vb" ++ kv toks "vb"] }
    else { model := "bad-op", tags := ["bad-op"], nontrivial := false }

end Drv.C19
