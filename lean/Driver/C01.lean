import Shisui.Dispatch
import Shisui.DispatchVal
import Driver.Util
/-! C01 driver: outcome classes of the peer-reachable entry points (talk handler, response processors, stream body,
    storage adapters, validators, trie traversal, uTP talk handler, attacks over the in-memory wire).
    `drv C01` compares with the ideal model (no unguarded access); `drv C01 asis` with every known quirk on;
    `drv C01 q=a,b,…` with the listed quirks on (names = fields of `Dp.Quirks`). -/
namespace Drv.C01
open Drv Dp

def setQuirk (q : Quirks) (name : String) : Quirks :=
  match name with
  | "talkEmpty" => { q with talkEmpty := true }
  | "contentSel" => { q with contentSel := true }
  | "histKey" => { q with histKey := true }
  | "histVal" => { q with histVal := true }
  | "stateKey" => { q with stateKey := true }
  | "stateVal" => { q with stateVal := true }
  | "beaconGetKey" => { q with beaconGetKey := true }
  | "beaconPutKey" => { q with beaconPutKey := true }
  | "beaconVal" => { q with beaconVal := true }
  | "beaconSumGet" => { q with beaconSumGet := true }
  | "beaconSumPut" => { q with beaconSumPut := true }
  | "stateProof" => { q with stateProof := true }
  | "rootsIndex" => { q with rootsIndex := true }
  | "withdrawalsNil" => { q with withdrawalsNil := true }
  | "trieEmptyKey" => { q with trieEmptyKey := true }
  | "triePath" => { q with triePath := true }
  | _ => q

/-- quirk selection from the driver's arguments -/
def quirksOf (args : List String) : Quirks :=
  match args with
  | ["asis"] => Quirks.asIs
  | [a] => if a.startsWith "q=" then ((a.drop 2).toString.splitOn ",").foldl setQuirk {} else {}
  | _ => {}

def render : Out → String
  | .reply c none => s!"reply:{c}"
  | .reply c (some s) => s!"reply:{c}.{s}"
  | .empty => "empty"
  | .ok => "ok"
  | .found n => s!"found:{n}"
  | .notFound => "notfound"
  | .nilNil => "nilnil"
  | .err => "err"
  | .handled => "handled"
  | .panic s => "panic@" ++ s

def netOf (s : String) : Net := if s == "b" then .beacon else if s == "s" then .state else .history

def pairOf (s : String) : Option (Nat × Nat) :=
  match s.splitOn ":" with
  | [a, b] => some (a.toNat!, b.toNat!)
  | _ => none

/-- `have=-,<keyhex>:<len>,…  per=-,<period>:<len>,…  fin=<slot>:<len>|-  opt=…  sum=-|v<hex>|v<hex8>:<len>` -/
def parseEnv (toks : List String) : Env :=
  let items (k : String) : List String := ((kv toks k).splitOn ",").filter (fun s => s != "-" && s != "")
  let held := (items "have").filterMap fun s =>
    match s.splitOn ":" with
    | [k, n] => some (unhex k, n.toNat!)
    | _ => none
  let per := (items "per").filterMap pairOf
  let sumS := kv toks "sum"
  let sum : Option (List Nat × Nat) :=
    if sumS == "-" || sumS == "" then none else
    match ((sumS.drop 1).toString).splitOn ":" with
    | [h, n] => some (unhex h, n.toNat!)
    | [h] => let b := if h == "" then [] else unhex h; some (b.take 8, b.length)
    | _ => none
  { held := held, periods := per, fin := pairOf (kv toks "fin"), opt := pairOf (kv toks "opt"), sum := sum }

def verOf (s : String) : Option Nat := if s == "x" then none else some s.toNat!

/-- byte strings too long to be useful are given as `#len:fnv`: only the length is known -/
def parseContent (s : String) : List Nat :=
  if s.startsWith "#" then
    match ((s.drop 1).toString).splitOn ":" with
    | n :: _ => List.replicate n.toNat! 0
    | _ => []
  else parseBytes s

def nibbles (s : String) : List Nat := if s == "-" || s == "" then [] else (s.splitOn ".").map String.toNat!

/-- recursive-descent parser of the node notation of `state/trie/verif_export.go` -/
partial def parseNode : List Char → Option (Tr.Node × List Char)
  | 'N' :: rest => some (.empty, rest)
  | 'H' :: '(' :: rest =>
    some (.hash (hexGo (rest.takeWhile (· != ')')) []), (rest.dropWhile (· != ')')).drop 1)
  | 'V' :: '(' :: rest =>
    some (.value (hexGo (rest.takeWhile (· != ')')) []), (rest.dropWhile (· != ')')).drop 1)
  | 'S' :: '(' :: rest =>
    let keyS := rest.takeWhile (· != '|')
    match parseNode ((rest.dropWhile (· != '|')).drop 1) with
    | some (v, r2) => some (.short (nibbles (String.ofList keyS)) v, r2.drop 1)
    | none => none
  | 'F' :: '(' :: rest =>
    let rec kids (cs : List Char) (acc : List Tr.Node) : Option (List Tr.Node × List Char) :=
      match cs with
      | ')' :: r => some (acc.reverse, r)
      | ',' :: r => kids r acc
      | _ => match parseNode cs with
        | some (n, r) => kids r (n :: acc)
        | none => none
    match kids rest [] with
    | some (ks, r) => some (.full ks, r)
    | none => none
  | _ => none

def nodeOf (s : String) : Option Tr.Node := (parseNode s.toList).map (·.1)

def renderT : TOut → String
  | .ok ref rest => s!"ok:{hex ref}:{if rest.isEmpty then "-" else ".".intercalate (rest.map toString)}"
  | .err => "err"
  | .panic k => "panic@trie.TraverseTrieNode:" ++ k

def flag (s : String) : Bool := s == "1"

def histShape (s : String) : HistShape :=
  let p := s.splitOn ":"
  let f (k : String) : String := kv p k
  match p.headD "" with
  | "vec" => .vec
  | "roots" => .roots (flag (f "exec")) (f "slot").toNat! (f "nroots").toNat!
  | "body" => .body (flag (f "hw")) (flag (f "bw")) (flag (f "wm"))
  | _ => .raw

def stateShape (s : String) : StateShape :=
  let p := s.splitOn ":"
  let f (k : String) : String := kv p k
  match p.headD "" with
  | "acc" => .acc (f "np").toNat! (flag (f "hm"))
  | "con" => .con (f "np").toNat! (flag (f "hm"))
  | "code" => .code (flag (f "hm"))
  | "vec" => .vec
  | _ => .raw

/-- clauses of the property evaluated on the implementation's output alone -/
def monitors (impl : String) : List String :=
  let w := (words impl).headD ""
  (if w.startsWith "panic@" then ["no_panic@" ++ (w.drop 6).toString] else [])
  ++ (if w.startsWith "died@" then ["no_remote_kill@" ++ (w.drop 5).toString] else [])
  ++ (if w == "timeout" then ["call_returns"] else [])

def classTag (impl : String) : String :=
  let w := (words impl).headD ""
  if w.startsWith "panic@" then "panic" else if w.startsWith "died@" then "died"
  else if w.startsWith "found:" then "found" else if w.startsWith "ok:" then "ok" else w

/-- `handled` stands for either `ok` or `err`; when a dependency's decoder decides, the model cannot tell which inputs
    reach a quirked site behind it: a panic there is reported by the monitor (`no_panic@site`), not as a mismatch -/
def viewFor (model impl : String) : Option String :=
  if model == "handled" && (impl == "ok" || impl == "err" || impl.startsWith "panic@") then some "handled" else none

def codeTag (msg : List Nat) : String :=
  match msg with
  | [] => "len0"
  | c :: _ => if c == 0 then "ping" else if c == 2 then "findnodes" else if c == 4 then "findcontent" else if c == 6 then "offer" else "othercode"

def lenTag (n : Nat) : String := if n ≤ 2 then s!"len{n}" else if n ≤ 64 then "len3-64" else if n ≤ 1400 then "len65-1400" else "len>1400"

def step (q : Quirks) (toks : List String) (impl : String) : Res :=
  let op := toks.headD ""
  let netS := kv toks "net"
  let net := netOf netS
  match op with
  | "talk" | "wire" =>
    let e := parseEnv toks
    let msg := parseBytes (kv toks "msg")
    let out := handleTalk q net e (verOf (kv toks "ver")) msg
    let w := (words impl).headD ""
    let m := if op == "talk" then render out else
      match out with
      | .panic s => "died@" ++ s
      | o => render o ++ " alive=1"
    let shapeOk := w == "empty" || w.startsWith "reply:" || w.startsWith "panic@" || w.startsWith "died@" || w == "timeout"
    let codeOk := match msg, w.startsWith "reply:" with
      | c :: _, true => w.startsWith s!"reply:{c + 1}"
      | _, _ => true
    let alive := op == "talk" || w.startsWith "died@" || kv (words impl) "alive" == "1"
    { model := m,
      monitor := monitors impl ++ (if shapeOk then [] else ["reply_or_empty"]) ++ (if codeOk then [] else ["reply_code_matches_request"])
                 ++ (if alive then [] else ["node_alive_after"]),
      tags := [op, op ++ "-" ++ netS, op ++ "-" ++ codeTag msg, op ++ "-" ++ lenTag msg.length, op ++ "=" ++ classTag impl],
      nontrivial := msg.length > 2 }
  | "resp" =>
    let kind := kv toks "kind"
    let resp := parseBytes (kv toks "resp")
    let ver := (verOf (kv toks "ver")).getD 0
    let out := match kind with
      | "pong" => processPong resp
      | "nodes" => processNodes resp
      | "content" => processContent q resp
      | _ => processOffer ver (kvNat toks "nk") resp
    let m := render out
    { model := m, implView := viewFor m impl,
      monitor := monitors impl ++ (if impl == "ok" || impl == "err" || impl.startsWith "panic@" || impl == "timeout" then [] else ["value_or_error"]),
      tags := ["resp", "resp-" ++ kind, "resp-" ++ netS, "resp-" ++ lenTag resp.length, "resp=" ++ classTag impl],
      nontrivial := resp.length > 2 }
  | "oc" =>
    let payload := parseBytes (kv toks "payload")
    { model := render (offeredContents (kvNat toks "nk") payload), monitor := monitors impl,
      tags := ["oc", "oc-" ++ netS, "oc=" ++ classTag impl], nontrivial := payload.length > 1 }
  | "get" =>
    let key := parseBytes (kv toks "key")
    { model := render (getOut q net (parseEnv toks) key), monitor := monitors impl,
      tags := ["get", "get-" ++ netS, "get-key" ++ lenTag key.length, "get=" ++ classTag impl], nontrivial := key.length > 1 }
  | "put" =>
    let key := parseBytes (kv toks "key")
    let content := parseContent (kv toks "content")
    let shape := kv toks "shape"
    let out := match net with
      | .history => historyPut q key
      | .state => statePut q key (stateShape shape)
      | .beacon => if shape == "vec" && !key.isEmpty then .ok else beaconPut q (parseEnv toks) key content
    let m := render out
    { model := m, implView := viewFor m impl, monitor := monitors impl,
      tags := ["put", "put-" ++ netS, "put-" ++ (shape.splitOn ":").headD "", "put=" ++ classTag impl], nontrivial := key.length > 1 }
  | "val" =>
    let key := parseBytes (kv toks "key")
    let shape := kv toks "shape"
    let out := match net with
      | .history => historyValidate q key (if shape == "empty" then .raw else histShape shape)
      | .beacon => beaconValidate q key
      | .state =>
        let sh : StShape := if shape == "vec" then .vec
          else if shape == "acct2" then
            .acct2 (if kv toks "n1" == "!" then none else nodeOf (kv toks "n1")) (nibbles (kv toks "path")) (flag (kv toks "link")) (flag (kv toks "nh"))
          else .raw
        stateValidate q key sh
    let m := render out
    { model := m, implView := viewFor m impl, monitor := monitors impl,
      tags := ["val", "val-" ++ netS, "val-" ++ (shape.splitOn ":").headD "", "val=" ++ classTag impl], nontrivial := key.length > 1 }
  | "pongseq" =>
    -- a PONG announcing a newer record, then whatever NODES answer to our request for it: our PING comes back fine, no panic
    { model := "ok", monitor := monitors impl, tags := ["pongseq", kv toks "kind", "pongseq=" ++ classTag impl], nontrivial := true }
  | "utpbody" =>
    -- a really served uTP stream: the honest and the over-framed body give a value, the raw body where a version-1 frame is
    -- expected fails to decode after a complete read - an error, never a panic
    let m := if kv toks "kind" == "raw_for_v1" then "err" else "ok"
    { model := m, monitor := monitors impl, tags := ["utpbody", kv toks "kind", "utpbody=" ++ classTag impl], nontrivial := true }
  | "trav" =>
    match nodeOf (kv toks "node") with
    | none => { model := "unparsed-node", tags := ["trav", "trav-unparsed"], nontrivial := false }
    | some n =>
      let path := nibbles (kv toks "path")
      { model := renderT (traverseQ q.trieEmptyKey q.triePath n path),
        monitor := monitors impl ++ (if wfNodeB n then [] else ["decoder_wellformed_node"]),
        tags := ["trav", "trav=" ++ classTag impl], nontrivial := !path.isEmpty }
  | "utp" =>
    { model := "empty", monitor := monitors impl ++ (if impl == "empty" || impl.startsWith "died@" || impl.startsWith "panic@" || impl == "timeout" then [] else ["utp_empty_reply"]),
      tags := ["utp", "utp-" ++ kv toks "via", "utp=" ++ classTag impl] }
  | "utplive" =>
    { model := "ok", monitor := monitors impl ++ (if impl == "ok" || impl.startsWith "died@" then [] else ["utp_transfer_after_attack"])
                        ++ (if (utpTalk (kvNat toks "maxq") (kvNat toks "cap")).isSome then [] else ["utp_queue_has_room"]),
      tags := ["utplive"] }
  | _ =>
    -- a child process that died outside a case
    if impl.startsWith "died@" then { model := "alive", monitor := monitors impl, tags := ["child-died"] }
    else { model := "bad-op", tags := ["bad-op"], nontrivial := false }

end Drv.C01
