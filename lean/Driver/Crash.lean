import Shisui.Store.Exec
import Shisui.Store.Crash
import Driver.Store
/-! C17 driver: a put history is replayed through the executable store model, recording the database image after every
    committed batch (put: {item, counter}; prune: {deletes, counter}). Every observed post-crash reopen must equal
    `StX.reopen` of SOME such image (pebble applies a batch atomically and loses at most a suffix of batches), and the
    property's clauses are evaluated on the observation itself. -/
namespace Drv.Crash
open Drv StX Drv.Store

structure Img where
  items : List Item
  counter : Nat

structure CD where
  le : Bool := true
  node : List Nat := []
  cap : Nat := 0
  st : Store := StX.empty 0
  images : List Img := [{ items := [], counter := 0 }]      -- oldest first; the empty database is image 0
  puts : List (Nat × String) := []                          -- (key, "len:digest") of every put issued

def showItems (l : List Item) : String :=
  if l.isEmpty then "-" else ",".intercalate (l.map fun e => s!"{hex64 e.be}/{e.len}:{hexNat e.val.toNat 16}")

def showReopen (s : Store) : String :=
  let maxKept := match s.items.getLast? with | some e => hex64 e.be | none => "-"
  s!"reopen=ok n={s.items.length} held={held s.items} persisted={s.tracked} radius={hex64 s.radius} maxkept={maxKept} items={showItems s.items}"

def step (d : CD) (toks : List String) (impl : String) : CD × Res :=
  match toks.head? with
  | some "chist" =>
    let cap := kvNat toks "cap"
    ({ le := kv toks "endian" != "be", node := unhex (kv toks "node"), cap := cap, st := StX.empty cap },
     { model := "ok", tags := ["chist"], nontrivial := false })
  | some "cput" =>
    let key := xorKey (unhex (kv toks "id")) d.node
    let len := kvNat toks "len"
    let x : Item := { be := beVal key, le := leVal key, len := len, val := fnvGen len (kvNat toks "seed") }
    if ¬ dist d.le x < d.st.radius then
      (d, { model := "ok", tags := ["cput", "refused"], nontrivial := false })
    else
      let s1 : Store := { d.st with items := ins x d.st.items, tracked := d.st.tracked + 32 + len }
      let img1 : Img := { items := s1.items, counter := s1.tracked }
      let pruned := s1.tracked > s1.cap
      let s2 := if pruned then prune d.le s1 else s1
      let imgs := if pruned then [img1, { items := s2.items, counter := s2.tracked }] else [img1]
      ({ d with st := s2, images := d.images ++ imgs, puts := (x.be, s!"{len}:{hexNat x.val.toNat 16}") :: d.puts },
       { model := "ok", tags := ["cput"] ++ (if pruned then ["cput-pruned"] else []), nontrivial := false })
  | some "crash" =>
    let it := words impl
    if it.headD "" != "reopen=ok" then
      (d, { model := "reopen=ok", skipCompare := true, monitor := ["reopen_succeeds"], tags := ["crash", "reopen-failed"] })
    else
      -- which prefix of committed batches explains the observation?
      let cands := d.images.zipIdx.filter fun (img, _) => showReopen (reopen d.le img.items img.counter d.cap) == impl
      let explained := !cands.isEmpty
      let j := match cands.getLast? with | some p => p.2 | none => 0
      -- the property's clauses on the observation
      let itemsS := kv it "items"
      let obsItems : List (Nat × String) := if itemsS == "-" then [] else (itemsS.splitOn ",").map fun e =>
        let p := e.splitOn "/"
        (beVal (unhex (p.getD 0 "")), p.getD 1 "")
      let genuine := obsItems.all fun o => d.puts.any fun p => p.1 == o.1 && p.2 == o.2
      let pers := kvNat it "persisted"
      let heldO := kvNat it "held"
      let radius := beVal (unhex (kv it "radius"))
      let maxKept := kv it "maxkept"
      -- radius rule, ideal reading (big-endian): max unless the reloaded counter exceeds 95 %, then the farthest key
      let radiusIdeal := if pers > d.cap * 19 / 20 && maxKept != "-" then beVal (unhex maxKept) else maxRadius
      let mon := (if !genuine then ["items_genuine"] else [])
        ++ (if pers < heldO then ["counter_ge_held"] else [])
        -- one pruning pass on open frees 5 % (or everything), which need not bring a store of large items under its capacity:
        -- an image still over capacity is only wrong when no batch prefix pruned once explains it
        ++ (if heldO > d.cap && pers > d.cap && !explained then ["open_prunes_overcap"] else [])
        ++ (if radius != radiusIdeal then ["open_radius_is_farthest"] else [])
        ++ (if !explained then ["image_is_a_batch_prefix"] else [])
      (d, { model := "", skipCompare := true, monitor := mon,
            tags := ["crash", kv toks "variant", s!"prefix{if explained then toString (min j 30) else "-none"}",
                     if pers > d.cap * 19 / 20 then "radius-rederived" else "radius-max"],
            nontrivial := j > 0 })
  | _ => (d, { model := "bad-op", tags := ["bad-op"], nontrivial := false })

end Drv.Crash
