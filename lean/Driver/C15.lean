import Shisui.FramingUtp
import Shisui.FramingLen
import Driver.Util
/-! C15 driver: stream framing. -/
namespace Drv.C15
open Drv Fr

def okItems (o : Option (List (List Nat))) : String :=
  match o with
  | some xs => "ok " ++ canonItems xs
  | none => "err"

def isPrefixOf {α} [BEq α] (p l : List α) : Bool := p.length ≤ l.length && l.take p.length == p

/-- specification-level reading of a LEB128 number: all continuation bytes, unbounded -/
def rawVarint : List Nat → Nat → Nat → Option (Nat × Nat)
  | [], _, _ => none
  | b :: rest, sh, acc => if b < 128 then some (acc + b * 2 ^ sh, 1) else
      match rawVarint rest (sh + 7) (acc + (b % 128) * 2 ^ sh) with
      | some (v, n) => some (v, n + 1)
      | none => none

/-- why a stream must be rejected according to the property's own words (independent of the model decoder):
    a cut varint, a varint of 2^32 or more, or a prefix exceeding the remaining bytes, at any item boundary -/
def mustReject : Nat → List Nat → Option String
  | 0, _ => none
  | fuel + 1, data =>
    if data.isEmpty then none else
    match rawVarint data 0 0 with
    | none => some "truncated_rejected"
    | some (v, n) =>
      if v ≥ 2 ^ 32 then some "varint_overflow_rejected"
      else if data.length < n + v then some "overlong_prefix_rejected"
      else mustReject fuel (data.drop (n + v))

def rejectMonitor (single : Bool) (b : List Nat) (impl : String) : List String :=
  if impl == "err" then [] else
  if impl == "panic" then ["rejected_with_error_not_panic"] else
  match mustReject (if single then 1 else b.length + 1) b with
  | some c => [c]
  | none => []

def step (toks : List String) (impl : String) : Res :=
  match toks with
  | ["retainenc", what, _] =>
    -- the joined stream kept from one call still is that stream after the next call
    { model := "changed=0", monitor := if impl == "changed=0" then [] else ["join_result_stable"], tags := ["retainenc", what], nontrivial := false }
  | ["concframing", _, _] =>
    -- joining and splitting from several goroutines at once: every call gives what it gives alone (the model is a function)
    { model := "diffs=0", monitor := if impl == "diffs=0" then [] else ["same_result_when_called_concurrently"], tags := ["concframing"] }
  | ["hugeenc", lens] =>
    -- items too large to spell out (all-zero values of the given lengths): the stream's size and every length prefix come from
    -- the lengths alone (`Fr.encContents_length`), the values are compared by the harness
    let ns := (lens.splitOn ",").filterMap String.toNat?
    let prefixes := ",".intercalate (ns.map fun n => canon (enc n))
    { model := s!"outlen={streamLen ns} prefixes={prefixes} bodies=1 rt=same",
      monitor := if (words impl).getLast? == some "rt=same" then [] else ["roundtrip"],
      tags := ["hugeenc", s!"n{ns.length}"] }
  | ["enc", items] =>
    let xs := parseItems items
    { model := canon (encContents xs), tags := ["enc", s!"n{min xs.length 65}"], nontrivial := xs.length > 1 }
  | ["dec", bs] =>
    let b := parseBytes bs
    let r := decContents b
    { model := okItems r, monitor := rejectMonitor false b impl, tags := ["dec", if r.isSome then "dec-ok" else "dec-err"], nontrivial := b.length > 1 }
  | ["dec1", bs] =>
    let b := parseBytes bs
    match decSingle b with
    | some (c, rest) => { model := "ok " ++ canon c ++ " " ++ canon rest, monitor := rejectMonitor true b impl, tags := ["dec1", "dec1-ok"] }
    | none => { model := "err", monitor := rejectMonitor true b impl, tags := ["dec1", "dec1-err"] }
  | ["rt", items] =>
    -- implementation-side round trip: Go decodeContents(encodeContents xs) == xs
    let xs := parseItems items
    let m := if decContents (encContents xs) == some xs then "same" else "diff"
    { model := m, monitor := if impl == "same" then [] else ["roundtrip"], tags := ["rt"], nontrivial := xs.length > 0 }
  | ["trunc", items, cut] =>
    -- a valid stream cut after `cut` bytes must be rejected or yield a prefix of the items
    let xs := parseItems items
    let p := (encContents xs).take cut.toNat!
    let r := decContents p
    let bad : Bool := match (words impl) with
      | ["err"] => false
      | ["ok", got] => !(isPrefixOf (if got == "-" then [] else (got.splitOn ",")) (xs.map canon))
      | _ => true
    { model := okItems r, monitor := if bad then ["prefix_never_resplits"] else [],
      tags := ["trunc", if r.isSome then "trunc-ok" else "trunc-err"] }
  | ["utpenc", v, bs] =>
    { model := "ok " ++ canon (utpEnc v.toNat! (parseBytes bs)), tags := ["utpenc", "v" ++ v] }
  | ["utpdec", v, bs] =>
    let r := utpDec v.toNat! (parseBytes bs)
    let m := match r with | some c => "ok " ++ canon c | none => "err"
    -- single_exact: an accepted v1 stream is header ++ content with the header decoding to |content|
    let b := parseBytes bs
    let bad : Bool := v == "1" && match words impl with
      | ["ok", c] => !(canon (b.drop (b.length - (match r with | some c' => c'.length | none => 0))) == c
                      && r.isSome)
      | _ => false
    { model := m, monitor := if bad then ["single_exact"] else [], tags := ["utpdec", "v" ++ v, if r.isSome then "utpdec-ok" else "utpdec-err"] }
  | ["utprt", v, bs] =>
    let b := parseBytes bs
    let m := if utpDec v.toNat! (utpEnc v.toNat! b) == some b then "same" else "diff"
    { model := m, monitor := if impl == "same" then [] else ["utp_roundtrip"], tags := ["utprt", "v" ++ v] }
  | _ => { model := "bad-op", tags := ["bad-op"], nontrivial := false }

end Drv.C15
