import Shisui.FramingUtp
import Driver.Util
/-! C15 driver: stream framing. -/
namespace Drv.C15
open Drv Fr

def okItems (o : Option (List (List Nat))) : String :=
  match o with
  | some xs => "ok " ++ canonItems xs
  | none => "err"

def isPrefixOf {α} [BEq α] (p l : List α) : Bool := p.length ≤ l.length && l.take p.length == p

def step (toks : List String) (impl : String) : Res :=
  match toks with
  | ["enc", items] =>
    let xs := parseItems items
    { model := canon (encContents xs), tags := ["enc", s!"n{min xs.length 65}"], nontrivial := xs.length > 1 }
  | ["dec", bs] =>
    let b := parseBytes bs
    let r := decContents b
    { model := okItems r, tags := ["dec", if r.isSome then "dec-ok" else "dec-err"], nontrivial := b.length > 1 }
  | ["dec1", bs] =>
    let b := parseBytes bs
    match decSingle b with
    | some (c, rest) => { model := "ok " ++ canon c ++ " " ++ canon rest, tags := ["dec1", "dec1-ok"] }
    | none => { model := "err", tags := ["dec1", "dec1-err"] }
  | ["rt", items] =>
    -- implementation-side round trip: Go decodeContents(encodeContents xs) == xs
    let xs := parseItems items
    let m := if decContents (encContents xs) == some xs then "same" else "diff"
    { model := m, monitor := if impl == "same" then [] else ["roundtrip"], tags := ["rt"], nontrivial := xs.length > 0 }
  | ["trunc", items, cut] =>
    -- a valid stream cut after `cut` bytes must be rejected or yield a prefix of the items
    let xs := parseItems items
    let p := (encContents xs).take cut.toNat!
    let r := decContents p
    let bad : Bool := match (words impl) with
      | ["err"] => false
      | ["ok", got] => !(isPrefixOf (if got == "-" then [] else (got.splitOn ",")) (xs.map canon))
      | _ => true
    { model := okItems r, monitor := if bad then ["prefix_never_resplits"] else [],
      tags := ["trunc", if r.isSome then "trunc-ok" else "trunc-err"] }
  | ["utpenc", v, bs] =>
    { model := "ok " ++ canon (utpEnc v.toNat! (parseBytes bs)), tags := ["utpenc", "v" ++ v] }
  | ["utpdec", v, bs] =>
    let r := utpDec v.toNat! (parseBytes bs)
    let m := match r with | some c => "ok " ++ canon c | none => "err"
    -- single_exact: an accepted v1 stream is header ++ content with the header decoding to |content|
    let b := parseBytes bs
    let bad : Bool := v == "1" && match words impl with
      | ["ok", c] => !(canon (b.drop (b.length - (match r with | some c' => c'.length | none => 0))) == c
                      && r.isSome)
      | _ => false
    { model := m, monitor := if bad then ["single_exact"] else [], tags := ["utpdec", "v" ++ v, if r.isSome then "utpdec-ok" else "utpdec-err"] }
  | ["utprt", v, bs] =>
    let b := parseBytes bs
    let m := if utpDec v.toNat! (utpEnc v.toNat! b) == some b then "same" else "diff"
    { model := m, monitor := if impl == "same" then [] else ["utp_roundtrip"], tags := ["utprt", "v" ++ v] }
  | _ => { model := "bad-op", tags := ["bad-op"], nontrivial := false }

end Drv.C15
