import Shisui.FindContent
import Shisui.FramingUtp
import Shisui.Versions
import Driver.Util
/-! C08 driver: `handleFindContent` (deterministic given the real sort order of the table) and end-to-end transfers. -/
namespace Drv.C08
open Drv Fc

/-- maxPacketSize − talkRespOverhead − (msg id + selector) -/
def payloadMax : Nat := 1280 - 103 - 2

def parseNats (s : String) : List Nat := if s == "-" || s == "" then [] else (s.splitOn ",").filterMap String.toNat?

def sortedLogB : List N → Bool
  | a :: b :: r => a.logd ≤ b.logd && sortedLogB (b :: r)
  | _ => true

def stepFind (toks : List String) (impl : String) : Res :=
  let asker := kvNat toks "asker"
  let st := kv toks "stored"
  let stored : Option Nat := if st == "-1" then none else some st.toNat!
  let tabS := kv toks "tab"
  let tab : List N := if tabS == "-" then [] else (tabS.splitOn ",").map fun e =>
    let p := e.splitOn ":"
    ({ id := (p.getD 0 "").toNat!, logd := (p.getD 1 "").toNat!, enrLen := (p.getD 2 "").toNat! } : N)
  let sortedIds := parseNats (kv toks "sorted")
  let sorted := sortedIds.filterMap fun i => tab.find? (·.id == i)
  let it := words impl
  let total := kvNat it "total"
  let m := match stored with
    | none => s!"enrs={let l := (enrsReply sorted asker payloadMax).map (·.id); if l.isEmpty then "-" else ",".intercalate (l.map toString)}"
    | some len => if len ≤ payloadMax then s!"raw={len} same=1" else "connid"
  -- what findNodesCloseToContent must deliver: table records only, non-decreasing log distance, the 32 closest
  let rest := tab.filter fun n => !sortedIds.contains n.id
  let maxIn := (sorted.map (·.logd)).foldl max 0
  let closestOk := sorted.length == min 32 tab.length && rest.all (fun n => maxIn ≤ n.logd) &&
                   sortedIds.eraseDups.length == sortedIds.length && sorted.length == sortedIds.length
  let res := parseNats (kv it "enrs")
  let mon := (if it.headD "" == "error" || it.headD "" == "undecodable" || it.headD "" == "badselector" then ["reply_wellformed"] else [])
    ++ (if total + 103 > 1280 then ["fits_one_packet"] else [])
    ++ (if !sortedLogB sorted then ["nondecreasing_logdist"] else [])
    ++ (if !closestOk then ["closest_from_table"] else [])
    ++ (if stored.isNone && !sortedLogB (res.filterMap fun i => tab.find? (·.id == i)) then ["reply_nondecreasing_logdist"] else [])
    ++ (if stored.isNone && res.contains asker && asker != 0 then ["never_the_asker"] else [])
    ++ (if stored.isNone && res.any (fun i => !(tab.any (·.id == i))) then ["only_table_records"] else [])
    ++ (if stored.isSome && (kv it "raw") != "" && kv it "same" != "1" then ["inline_bytes_equal_stored"] else [])
    -- a key the node holds is answered with the content (inline or by a connection id), never with closer peers
    ++ (if stored.isSome && (kv it "enrs") != "" then ["held_content_is_served"] else [])
  { model := m, implView := some (project ["enrs", "raw", "same"] impl), monitor := mon,
    tags := ["findcontent", match stored with | none => "absent" | some l => if l ≤ payloadMax then "inline" else "stream",
             if asker == 0 then "stranger" else "asker-in-table", s!"tab{min tab.length 33}"],
    nontrivial := tab.length > 2 }

def stepTransfer (toks : List String) (impl : String) : Res :=
  let size := kvNat toks "size"
  let flag := if size ≤ payloadMax then 1 else 0
  let it := words impl
  let stalled := kv toks "stalled" == "1"
  -- a stalled transfer cut short by the asker's shutdown may end with an error; what it may not do is hand over other bytes
  let mon := if stalled then (if impl == "error" || kv it "same" == "1" then [] else ["transfer_bytes_equal_stored"]) else
    (if kv it "same" != "1" then ["transfer_bytes_equal_stored"] else [])
    ++ (if kv it "maxdgram_ok" != "1" then ["fits_one_packet"] else [])
  { model := if stalled then impl else s!"flag={flag} same=1 maxdgram_ok=1", monitor := mon,
    tags := ["transfer", if flag == 1 then "inline" else "utp", "va" ++ kv toks "va", "vb" ++ kv toks "vb"] }

def step (toks : List String) (impl : String) : Res :=
  match toks.head? with
  | some "findcontent" => stepFind toks impl
  | some "transfer" => stepTransfer toks impl
  | some "transfer-ping" => { model := "ok", skipCompare := true, monitor := ["peers_reachable"], tags := ["ping-fail"] }
  | _ => { model := "bad-op", tags := ["bad-op"], nontrivial := false }

end Drv.C08
