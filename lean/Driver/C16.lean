import Shisui.Permits
import Shisui.PermitsFlow
import Driver.Util
/-! C16 driver: the slot controller (step equality with `Pm.step`, two independent pools), and the "slot comes back"
    outcome of every scripted offer outcome on real protocol instances. -/
namespace Drv.C16
open Drv Pm

/-- the scripted outcome kinds of the harness as paths of the model's exit table (`none`: the transfer is still going on) -/
def outOfKind : String → Option (Option Out)
  | "empty" => some (some .emptyResp)
  | "wrongcode" => some (some .notAccept)
  | "undecodable" | "truncated" => some (some .parseErr)
  | "wrongcount_declined" | "wrongcount_accepting" | "shortcount_accepting" => some (some .lenMismatch)
  | "all_declined" => some (some .declined)
  | "accepted_after_stop" => some (some .shutdown)
  | "accepted_dial_unanswered" => some (some .dialFail)
  | "accepted_in_progress" => some none
  | _ => none

def inOfKind : String → Option (Option In)
  | "pending" => some none
  | "stop_while_waiting" | "offer_after_stop" => some (some .shutdown)
  | "peer_silent" => some (some .acceptFail)
  | _ => none

/-- free slots the pool model predicts after `n` offers took a slot and each ran the given path -/
def freeAfter (limit n : Nat) (calls : Option (List Call)) : Nat :=
  let acq := List.replicate n Step.acquire
  let exits := match calls with
    | none => []
    | some cs => (List.range n).flatMap (fun i => stepsOfCalls i cs)
  (run limit (acq ++ exits)).avail

structure PState where
  inb : Sys
  outb : Sys
  held : List (Bool × Option Nat)   -- harness permit index ↦ (inbound?, index in that pool's offer list if granted)

def runOps (limit : Nat) (ops : List String) : List String × Nat × Nat :=
  let init : PState := { inb := { avail := limit, offers := [] }, outb := { avail := limit, offers := [] }, held := [] }
  let r := ops.foldl (fun (acc : PState × List String) op =>
    let st := acc.1
    if op == "ai" || op == "ao" then
      let inbound := op == "ai"
      let pool := if inbound then st.inb else st.outb
      let ok := pool.avail > 0
      let pool' := step pool .acquire
      let idx : Option Nat := if ok then some pool.offers.length else none
      let st' := if inbound then { st with inb := pool', held := st.held ++ [(true, idx)] }
                 else { st with outb := pool', held := st.held ++ [(false, idx)] }
      (st', acc.2 ++ [if ok then "1" else "0"])
    else
      let k := ((op.drop 1).toNat?).getD 0
      match st.held[k]? with
      | some (inbound, some i) =>
        -- Release(): idempotent (CompareAndSwap on the released flag)
        let st' := if inbound then { st with inb := step st.inb (.again i) } else { st with outb := step st.outb (.again i) }
        (st', acc.2 ++ ["-"])
      | _ => (st, acc.2 ++ ["-"])) (init, [])
  (r.2, r.1.inb.avail, r.1.outb.avail)

/-- the property's own accounting on the IMPLEMENTATION's answers: a grant takes a slot of its pool, the first release of a
    granted permit gives it back, nothing else changes anything. Returns (grant given while `limit` were out, slots out inbound,
    slots out outbound). -/
def account (limit : Nat) (ops res : List String) : Bool × Nat × Nat :=
  let r := (ops.zip res).foldl (fun (acc : Bool × Nat × Nat × List (Bool × Bool × Bool)) p =>
    let (over, outIn, outOut, held) := acc
    let op := p.1
    if op == "ai" || op == "ao" then
      let inbound := op == "ai"
      let granted := p.2 == "1"
      let out := if inbound then outIn else outOut
      let over' := over || (granted && out ≥ limit)
      let held' := held ++ [(inbound, granted, false)]
      if granted then (if inbound then (over', outIn + 1, outOut, held') else (over', outIn, outOut + 1, held'))
      else (over', outIn, outOut, held')
    else
      let k := ((op.drop 1).toNat?).getD 0
      match held[k]? with
      | some (inbound, true, false) =>
        let held' := held.set k (inbound, true, true)
        if inbound then (over, outIn - 1, outOut, held') else (over, outIn, outOut - 1, held')
      | _ => acc) (false, 0, 0, [])
  (r.1, r.2.1, r.2.2.1)

def step (toks : List String) (impl : String) : Res :=
  let it := words impl
  match toks.head? with
  | some "permitops" =>
    let limit := kvNat toks "limit"
    let ops := ((kv toks "ops").splitOn ",").drop 1
    let r := runOps limit ops
    let m := s!"res={",".intercalate ("-" :: r.1)} free_in={r.2.1} free_out={r.2.2}"
    -- bounded: never more grants outstanding than the limit; every slot comes back exactly once (a second release of a
    -- permit changes nothing, in particular it does not free a slot somebody else holds)
    let a := account limit ops (((kv it "res").splitOn ",").drop 1)
    let mon := (if kvNat it "free_in" > limit || kvNat it "free_out" > limit || a.1 then ["held_le_limit"] else [])
      ++ (if kvNat it "free_in" + a.2.1 != limit || kvNat it "free_out" + a.2.2 != limit then ["slot_returned_exactly_once"] else [])
    { model := m, monitor := mon,
      tags := ["permitops", s!"limit{limit}"], nontrivial := ops.length > 3 }
  | some "procoffer" =>
    let limit := kvNat toks "limit"
    let kind := kv toks "kind"
    let first := if kind == "all_declined" || kind == "accepted_in_progress" || kind == "accepted_after_stop" || kind == "accepted_dial_unanswered" then "ok" else "err"
    -- while an accepted transfer is in progress its slot is held (Pm: holding counts it); otherwise it is back
    let expectFree := match outOfKind kind with
      | some path => freeAfter limit 1 (path.map outCalls)
      | none => limit + 1000   -- a kind the exit table does not know: reported as a mismatch, never silently accepted
    { model := s!"{first} free={expectFree}",
      monitor := if kv it "free" != toString expectFree then [if kind == "accepted_in_progress" then "slot_held_while_transfer_in_progress" else "slot_returned_" ++ kind] else [],
      tags := ["procoffer", kind, "v" ++ kv toks "v"] }
  | some "offersilent" =>
    let limit := kvNat toks "limit"
    { model := s!"err free={limit}", monitor := if kv it "free" != toString limit then ["slot_returned_no_reply"] else [], tags := ["offersilent"] }
  | some "offerunsendable" =>
    -- an offer that cannot be encoded or gets no reply: whatever it returns, the slot is back
    let limit := kvNat toks "limit"
    { model := "", skipCompare := true, monitor := if kv it "free" != toString limit then ["slot_returned_" ++ kv toks "kind"] else [],
      tags := ["offerunsendable", kv toks "kind", it.headD "?"] }
  | some "gossipq" =>
    let limit := kvNat toks "limit"
    let full := kv toks "full" == "1"
    let targets := kvNat toks "targets"
    { model := s!"ok queued={if full then 0 else min targets limit} free={limit}",
      monitor := if kv it "free" != toString limit then [if full then "slot_returned_queue_full" else "slot_returned_gossip"] else [],
      tags := ["gossipq", if full then "queue-full" else "queue-free"] }
  | some "gossiprace" =>
    -- gossip calls racing with a queue that fills and empties under them: whatever was dropped on the way, every slot is back
    let limit := kvNat toks "limit"
    { model := s!"free={limit} targets_ge1=1",
      monitor := if kv it "free" != toString limit then ["slot_returned_queue_full_under_load"] else [],
      tags := ["gossiprace"] }
  | some "inbound" =>
    -- accepted inbound offers: a slot each while the node waits for the announced connection, all back afterwards
    let limit := kvNat toks "limit"
    let n := kvNat toks "n"
    let kind := kv toks "kind"
    let acc := ",".intercalate (List.replicate n "conn=1")
    let expectFree := match inOfKind kind with
      | some path => freeAfter limit n (path.map inCalls)
      | none => limit + 1000
    { model := s!"{acc} free={expectFree}",
      monitor := if kv it "free" != toString expectFree then [if kind == "pending" then "slot_held_while_waiting_for_connection" else "slot_returned_inbound_" ++ kind] else [],
      tags := ["inbound", kind] }
  | some "e2e" =>
    let limit := kvNat toks "limit"
    { model := s!"free_out={limit} free_in={limit} sent_ge1=1 arrived_ge1=1",
      monitor := (if kv it "free_out" != toString limit then ["slot_returned_outbound_transfer"] else [])
              ++ (if kv it "free_in" != toString limit then ["slot_returned_inbound_transfer"] else []),
      tags := ["e2e"] }
  | _ => { model := "bad-op", tags := ["bad-op"], nontrivial := false }

end Drv.C16
