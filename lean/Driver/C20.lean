import Shisui.GossipRel
import Shisui.RadiusCache
import Driver.Util
/-! C20 driver: gossip target selection (decidable relation, because the farther covered nodes are shuffled) and the
    radius cache under ping/pong reports (step equality, stateful per peer). -/
namespace Drv.C20
open Drv

structure RD where
  net : String := ""
  member : Bool := false
  cache : Option String := none    -- radius bytes (hex) as cached

def parseNats (s : String) : List Nat := if s == "-" || s == "" then [] else (s.splitOn ",").filterMap String.toNat?

def stepGossip (toks : List String) (impl : String) : Res :=
  let cs := kv toks "closest"
  let entries : List (Nat × Nat × Bool × Bool) := if cs == "-" then [] else (cs.splitOn ",").map fun e =>
    let p := e.splitOn ":"
    ((p.getD 0 "").toNat!, (p.getD 1 "").toNat!, p.getD 2 "" == "1", p.getD 3 "" == "1")
  let srcS := kv toks "src"
  let src : Option Nat := if srcS == "-1" then none else some srcS.toNat!
  let c : Gs.Ctx := { closest := entries.map (·.1),
                      radius := fun n => match entries.find? (·.1 == n) with | some e => if e.2.2.1 then some 1 else none | none => none,
                      covers := fun n _ => match entries.find? (·.1 == n) with | some e => e.2.2.2 | none => false,
                      src := src }
  let it := words impl
  let res := parseNats (kv it "peers")
  let cov := Gs.covered c
  let lds := entries.map (·.2.1)
  let sortedIn := (lds.zip (lds.drop 1)).all fun p => p.1 ≤ p.2
  let tablen := kvNat toks "tablen"
  let mon := (if it.headD "" == "error" then ["gossip_error"] else
      (if res.length > 8 then ["at_most_eight"] else [])
      ++ (if (match src with | some s => res.contains s | none => false) || kv it "srcqueued" == "1" then ["never_back_to_source"] else [])
      ++ (if res.any (fun n => !cov.contains n) then ["only_covered_known_radius"] else [])
      ++ (if (cov.take 4).any (fun n => !res.contains n) then ["four_closest_included"] else [])
      ++ (if !Gs.allowedB c res then ["selection_rule"] else [])
      ++ (if kvNat it "queued" != res.length then ["whole_batch_offered_to_each"] else [])
      ++ (if !sortedIn || entries.length != min 32 tablen then ["closest_32_by_logdist"] else []))
  { model := "", skipCompare := true, monitor := mon,
    tags := ["gossip", s!"cov{min cov.length 9}", s!"res{res.length}", match src with | none => "src-none" | some 0 => "src-stranger" | some _ => "src-table"],
    nontrivial := cov.length > 0 }

/-- radius-carrying payload types supported per network (ping_extension.go) -/
def supportedType (net : String) (t : Nat) : Bool :=
  if net == "history" then t == 0 || t == 2 else t == 0 || t == 1

def stepRadius (d : RD) (toks : List String) (impl : String) : RD × Res :=
  match toks.head? with
  | some "rpeer" => ({ net := kv toks "net", member := kv toks "member" != "none", cache := none }, { model := "ok", tags := ["rpeer"], nontrivial := false })
  | some "revent" =>
    let t := kvNat toks "type"
    let member := kv toks "member" != "none"
    let rep : Rc.Report := { member := member, supported := supportedType d.net t, wellFormed := kv toks "malformed" == "0", radius := 0 }
    let cache' := if Rc.applies rep then some (kv toks "radius") else d.cache
    let it := words impl
    let cs := match cache' with | some h => h | none => "none"
    -- the pong answering a ping: error payload for unsupported types and undecodable payloads, else the same type
    let kind := kv toks "kind"
    let expectPong := if !(d.net == "history" && (t == 0 || t == 2 || t == 65535) || d.net != "history" && (t == 0 || t == 1 || t == 65535)) then 65535
                      else if t == 65535 then 65535 else if kv toks "malformed" == "1" then 65535 else t
    let first := if kind == "ping" then s!"pongtype={expectPong}"
                 else if !member then "ok"       -- peers outside the table are ignored without error
                 else if Rc.applies rep then "ok" else "err"
    let mon := if kv it "cache" != cs then ["radius_is_last_report"] else []
    let out : Res := { model := s!"{first} cache={cs}", monitor := mon,
                       tags := ["revent", kind, s!"type{t}", if Rc.applies rep then "applied" else "ignored", if member then "member" else "stranger"] }
    ({ d with cache := cache' }, out)
  | some "raddenr" =>
    -- AddEnr of a record: a node that enters the table by this call starts with the maximum radius; a node that was in the
    -- table already keeps what it last reported
    let entered := kv toks "before" == "none" && kv toks "member" == "entry"
    let cache' := if entered then some (String.ofList (List.replicate 64 'f')) else d.cache
    let cs := match cache' with | some h => h | none => "none"
    let out : Res := { model := s!"cache={cs}", monitor := if impl != s!"cache={cs}" && !entered then ["radius_is_last_report"] else [],
                       tags := ["raddenr", if entered then "entered" else "known"] }
    ({ d with cache := cache' }, out)
  | some "rpingfail" =>
    -- a liveness ping of ours that the peer did not answer: no radius was reported, the cache entry stays as it is
    let cs := match d.cache with | some h => h | none => "none"
    let it := words impl
    let out : Res := { model := s!"err cache={cs}", monitor := if kv it "cache" != cs then ["radius_is_last_report"] else [],
                       tags := ["rpingfail"] }
    (d, out)
  | some "rcontentenrs" =>
    -- a FINDCONTENT answer of the closer-nodes kind from this peer: no radius was reported, the cache entry stays as it is
    let cs := match d.cache with | some h => h | none => "none"
    let it := words impl
    let out : Res := { model := s!"ok cache={cs}", monitor := if kv it "cache" != cs then ["radius_is_last_report"] else [],
                       tags := ["rcontentenrs", if kv toks "before" == "none" && kv toks "member" != "none" then "entered" else "same-membership"] }
    (d, out)
  | some "rwire" =>
    -- one ping through the real handler (asynchronous processing, polled): applied iff member and supported type
    let t := kvNat toks "type"
    let applied := kv toks "member" != "none" && supportedType d.net t
    let cache' := if applied then some (kv toks "radius") else d.cache
    let out : Res := { model := s!"updated={if applied then 1 else 0}",
                       monitor := if applied && impl != "updated=1" then ["radius_is_last_report"] else [], tags := ["rwire", s!"type{t}"] }
    ({ d with cache := cache' }, out)
  | _ => (d, { model := "bad-op", tags := ["bad-op"], nontrivial := false })

def step (d : RD) (toks : List String) (impl : String) : RD × Res :=
  match toks.head? with
  | some "gossip" => (d, stepGossip toks impl)
  | _ => stepRadius d toks impl

end Drv.C20
