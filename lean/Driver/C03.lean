import Shisui.Sha256
import Shisui.HeaderProof
import Driver.Util
/-! C03 driver: header proofs in the four eras.

    Every case of the Go harness is recomputed here with the model `Hp` instantiated at the Lean SHA-256:
    * `chain` / `batch` / `blk`  — accumulator roots from their contents (step equality with the real SSZ code);
    * `prove` / `hwp`            — the honest prover (`history.BuildProof`, `BuildHeaderWithProof`);
    * `top` / `bell` / `cap` / `deneb` — `ValidateHeaderAndProof` and the era validators (verdict class + cache size).
    Independently of the verifier model, a SPEC verdict is computed from the committed structures the driver has
    seen (records of every synthetic epoch, block roots of every batch, execution hash of every beacon block):
    a proof must be accepted iff it is byte for byte the honest opening of the committed leaf at the position
    fixed by the block number / the proof's slot; positions beyond an accumulator must yield an error.
    The clauses are evaluated on the IMPLEMENTATION's output. -/
namespace Drv.C03
open Drv Hp

/-! ## SHA-256 on 32-byte chunks read as big-endian naturals -/

def pushBE32 (acc : ByteArray) (n : Nat) : ByteArray := Id.run do
  let mut a := acc
  for i in [0:4] do
    let limb : UInt64 := (n >>> (64 * (3 - i))).toUInt64
    for j in [0:8] do
      a := a.push (limb >>> ((7 - j.toUInt64) * 8)).toUInt8
  return a

def natOfBytes (b : ByteArray) (off : Nat) : Nat := Id.run do
  let mut n : Nat := 0
  for i in [0:4] do
    let mut limb : UInt64 := 0
    for j in [0:8] do
      limb := (limb <<< 8) ||| (b.get! (off + 8 * i + j)).toUInt64
    n := (n <<< 64) ||| limb.toNat
  return n

/-- the hash of the model: SHA-256 of the 64-byte concatenation -/
def Hsha (a b : Nat) : Nat :=
  natOfBytes (Sha.sha256 (pushBE32 (pushBE32 (ByteArray.emptyWithCapacity 64) a) b)) 0

/-! ## parsing -/

def hexValB (c : UInt8) : UInt8 :=
  if c ≥ 48 && c ≤ 57 then c - 48 else if c ≥ 97 && c ≤ 102 then c - 87 else if c ≥ 65 && c ≤ 70 then c - 55 else 0

def unhexBA (s : String) : ByteArray := Id.run do
  if s == "-" then return ByteArray.empty
  let u := s.toUTF8
  let mut out := ByteArray.emptyWithCapacity (u.size / 2)
  for i in [0:u.size / 2] do
    out := out.push (hexValB (u.get! (2 * i)) * 16 + hexValB (u.get! (2 * i + 1)))
  return out

/-- concatenated 32-byte chunks in hex → chunks -/
def parseHashes (s : String) : Array Nat := Id.run do
  let b := unhexBA s
  let mut out : Array Nat := Array.mkEmpty (b.size / 32)
  for i in [0:b.size / 32] do
    out := out.push (natOfBytes b (32 * i))
  return out

def hash64 (n : Nat) : String := hexNat n 64
def hexHashes (l : List Nat) : String := if l.isEmpty then "-" else String.join (l.map hash64)

/-! ## Merkle layers (fast path for accumulator roots and honest branches) -/

def nextLayer (cur : Array Nat) : Array Nat := Id.run do
  let mut out : Array Nat := Array.mkEmpty (cur.size / 2)
  for i in [0:cur.size / 2] do
    out := out.push (Hsha cur[2 * i]! cur[2 * i + 1]!)
  return out

/-- layers[0] = leaves (a power of two of them) … last layer = [root] -/
partial def layersOf (leaves : Array Nat) : Array (Array Nat) :=
  let rec go (cur : Array Nat) (acc : Array (Array Nat)) : Array (Array Nat) :=
    if cur.size ≤ 1 then acc else
      let nx := nextLayer cur
      go nx (acc.push nx)
  go leaves #[leaves]

def topOf (layers : Array (Array Nat)) : Nat := (layers.back?.getD #[])[0]!

/-- siblings bottom-up of leaf `i` -/
def branchOf (layers : Array (Array Nat)) (i : Nat) : List Nat :=
  (List.range (layers.size - 1)).map fun l => (layers[l]!)[(i >>> l) ^^^ 1]!

/-! ## driver state -/

structure Epoch where
  chain : Nat
  idx : Nat                    -- epoch number inside its chain
  recs : List (Nat × Nat)      -- (block hash, total difficulty chunk) of the real records (no padding)
  layers : Array (Array Nat)   -- over the 16384 chunks
  root : Nat                   -- with the length mixed in

structure Batch where
  layers : Array (Array Nat)   -- over the 8192 block roots
  vroot : Nat
  sroot : Nat
  hroot : Nat

structure Blk where
  era : String
  hash : Nat
  eproof : List Nat
  root : Nat

structure DS where
  t : Tables := ⟨[], [], [], .absent⟩
  epochs : List Epoch := []
  batches : List Batch := []
  blks : List Blk := []
  qEpochs : Option Bool := none     -- does the code panic on an epoch index beyond the table? (learnt from the first such case)
  qRoots : Option Bool := none
  mkChecked : List Nat := []        -- chains whose first `prove` was cross-checked with `Mk.prove`

instance : Inhabited DS := ⟨{}⟩

inductive Spec where
  | accept | reject | outOfRange | unknown
deriving DecidableEq

def outName : Out → String
  | .ok => "ok" | .errExec => "err" | .errMerkle => "err" | .errOther => "err" | .panic => "panic"

def outWhy : Out → String
  | .ok => "ok" | .errExec => "exec" | .errMerkle => "merkle" | .errOther => "other" | .panic => "panic"

/-! ## specification verdicts from the committed structures -/

def epochRecHash (e : Epoch) (r : Nat) : Nat := (recAt e.recs r).1

def honestPre (e : Epoch) (r : Nat) : List Nat := branchOf e.layers (2 * r) ++ [lenChunk]

def specPre (d : DS) (number hash : Nat) (proof : List Nat) : Spec :=
  match d.t.epochs[number / epochSize]? with
  | none => .outOfRange
  | some root =>
    match d.epochs.find? (·.root == root) with
    | none => .unknown
    | some e =>
      let r := number % epochSize
      if epochRecHash e r == hash && chunksOf proof == some (honestPre e r) && r < e.recs.length then .accept else .reject

/-- `useH`: the table entry is the HistoricalBatch root (Bellatrix) rather than the block-roots root (summaries) -/
def specPost (d : DS) (useH : Bool) (nb ne : Nat) (entry : Option Nat) (hash : Nat) (proof : List Nat) (p? : Option PM) : Spec :=
  match p? with
  | none => .reject
  | some p =>
    match entry with
    | none => .outOfRange
    | some r =>
      match d.batches.find? (fun b => (if useH then b.hroot else b.vroot) == r) with
      | none => .unknown
      | some b =>
        let pos := p.slot % epochSize
        let broot := (b.layers[0]!)[pos]!
        match d.blks.find? (·.root == broot) with
        | none => .reject
        | some blk =>
          let br := branchOf b.layers pos ++ (if useH then [b.sroot] else [])
          if blk.hash == hash && p.broot == broot && p.eproof == blk.eproof && p.bproof == br
             && br.length == nb && blk.eproof.length == ne && proof.length == 32 * (nb + 1 + ne) + 8 then .accept else .reject

/-! ## one validation case -/

structure Verdict where
  ideal : Out
  asis : Out
  cache : List Nat
  spec : Spec
  era : String

def runTop (d : DS) (number hash : Nat) (proof : List Nat) : Verdict :=
  let mi := validate Hsha ideal d.t number hash proof
  let ma := validate Hsha asIs d.t number hash proof
  let cache := cacheAfter Hsha d.t number hash proof
  match eraOf number with
  | .preMerge => ⟨mi, ma, cache, specPre d number hash proof, "pre"⟩
  | .bellatrix =>
    let p? := decodePM 14 11 proof
    let entry := p?.bind fun p => d.t.roots[p.slot / epochSize]?
    ⟨mi, ma, cache, specPost d true 14 11 entry hash proof p?, "bell"⟩
  | .capella =>
    let p? := decodePM 13 11 proof
    let entry := p?.bind fun p => lookupSummary d.t p.slot
    ⟨mi, ma, cache, specPost d false 13 11 entry hash proof p?, "cap"⟩
  | .deneb =>
    let p? := decodePM 13 12 proof
    let entry := p?.bind fun p => lookupSummary d.t p.slot
    ⟨mi, ma, cache, specPost d false 13 12 entry hash proof p?, "deneb"⟩

def runEra (d : DS) (era : String) (hash : Nat) (proof : List Nat) : Verdict :=
  if era == "bell" then
    let p? := decodePM 14 11 proof
    let entry := p?.bind fun p => d.t.roots[p.slot / epochSize]?
    match p? with
    | none => ⟨.errOther, .errOther, d.t.summaries, .reject, era⟩
    | some p => ⟨validateBell Hsha ideal d.t hash p, validateBell Hsha asIs d.t hash p, d.t.summaries,
                 specPost d true 14 11 entry hash proof p?, era⟩
  else
    let ne := if era == "cap" then 11 else 12
    let g := if era == "cap" then gindexBellatrix else gindexDeneb
    let p? := decodePM 13 ne proof
    let entry := p?.bind fun p => lookupSummary d.t p.slot
    match p? with
    | none => ⟨.errOther, .errOther, d.t.summaries, .reject, era⟩
    | some p => ⟨validateSumm Hsha g d.t hash p, validateSumm Hsha g d.t hash p, cacheAfterSumm Hsha g d.t hash p,
                 specPost d false 13 ne entry hash proof p?, era⟩

/-- evaluate one validation case: correspondence (model with the quirk position the code exhibits) + clauses -/
def judge (mode : String) (d : DS) (v : Verdict) (kind : String) (impl : String) : DS × Res :=
  let it := words impl
  let implClass := it.headD "?"
  -- does this case reach one of the two unchecked table accesses?
  let reaches := v.ideal != v.asis
  let isPre := v.era == "pre"
  let known : Option Bool := if isPre then d.qEpochs else d.qRoots
  let learnt : Bool := implClass == "panic"
  let quirkOn : Bool :=
    if mode == "ideal" then false else if mode == "asis" then true else known.getD learnt
  let d1 : DS := if reaches && mode != "ideal" && mode != "asis" && known.isNone then
      (if isPre then { d with qEpochs := some learnt } else { d with qRoots := some learnt }) else d
  let m := if reaches && quirkOn then v.asis else v.ideal
  let d2 : DS := { d1 with t := { d1.t with summaries := v.cache } }
  -- the harness's label is only used where the committed structures are not known to the driver (mainnet roots)
  let spec : Spec := if v.spec != .unknown then v.spec
    else if kind == "honest" then .accept else if kind == "slotnear" then .unknown else .reject
  let labelBad := kind == "honest" && (v.spec == .reject || v.spec == .outOfRange)
  let oor := reaches || v.spec == .outOfRange
  let table := if isPre then "premerge_epochs" else if v.era == "bell" then "historical_roots" else "historical_summaries"
  let mon : List String :=
    (if oor && implClass != "err" then ["out_of_range_is_error_" ++ table] else [])
    ++ (if !oor && implClass == "panic" then ["no_panic"] else [])
    ++ (if spec == .accept && implClass != "ok" then ["honest_proof_verifies"] else [])
    ++ (if spec == .reject && implClass == "ok" then ["only_committed_leaf_verifies"] else [])
  let specTag := match spec with | .accept => "accept" | .reject => "reject" | .outOfRange => "oor" | .unknown => "unknown"
  let kindTag := (kind.toList.filter (fun c => !c.isDigit)) |> String.ofList
  (d2, { model := if labelBad then "label-inconsistent" else s!"{outName m} cache={v.cache.length}",
         implView := some (project ["cache"] impl),
         monitor := mon,
         tags := [s!"era-{v.era}", s!"kind-{kindTag}", s!"spec-{specTag}", s!"model-{outWhy m}"]
                 ++ (if v.spec == .unknown then ["truth-from-label"] else ["truth-from-structures"])
                 ++ (if reaches then ["reaches-unchecked-access"] else []),
         nontrivial := m == .ok || m == .errMerkle || m == .errExec || m == .panic })

/-! ## the step function -/

def zeroPad (a : Array Nat) (n : Nat) : Array Nat := a ++ Array.replicate (n - a.size) 0

def mkEpochs (chain : Nat) (recs : Array Nat) : List Epoch :=
  -- recs: 2 chunks per record
  let nRec := recs.size / 2
  let nEp := if nRec == 0 then 1 else (nRec + epochSize - 1) / epochSize
  (List.range nEp).map fun e =>
    let chunks := zeroPad (recs.extract (2 * epochSize * e) (2 * epochSize * (e + 1))) (2 * epochSize)
    let layers := layersOf chunks
    let nHere := min epochSize (nRec - epochSize * e)
    let rl := (List.range nHere).map fun i => (chunks[2 * i]!, chunks[2 * i + 1]!)
    { chain := chain, idx := e, recs := rl, layers := layers, root := Hsha (topOf layers) lenChunk }

def oracleOf (s : String) : Oracle :=
  if s == "none" then .absent else if s == "err" then .failing
  else .answers (parseHashes ((s.drop 5).toString)).toList

def setAt (l : List Nat) (i : Nat) (v : Nat) : List Nat := l.set i v

def step (mode : String) (d : DS) (toks : List String) (impl : String) : DS × Res :=
  match toks.head? with
  | some "consts" =>
    -- the embedded accumulators must cover exactly the pre-merge epochs and the pre-Capella batches
    let want := [("epochSize", epochSize), ("merge", mergeBlock), ("shanghai", shanghaiBlock), ("cancun", cancunBlock),
                 ("capellaForkEpoch", capellaForkEpoch), ("slotsPerEpoch", slotsPerEpoch), ("historyEpochSize", epochSize),
                 ("preMergeEpochs", (mergeBlock + epochSize - 1) / epochSize),
                 ("embeddedEpochs", (mergeBlock + epochSize - 1) / epochSize), ("embeddedRoots", capellaStart / epochSize)]
    let bad := want.filter fun p => kvNat toks p.1 != p.2
    (d, { model := if bad.isEmpty then "ok" else "constants-differ:" ++ ",".intercalate (bad.map (·.1)),
          tags := ["consts"], nontrivial := false })
  | some "tables" =>
    let t : Tables := ⟨(parseHashes (kv toks "epochs")).toList, (parseHashes (kv toks "roots")).toList,
                       (parseHashes (kv toks "sums")).toList, oracleOf (kv toks "oracle")⟩
    ({ d with t := t }, { model := s!"n={t.epochs.length},{t.roots.length},{t.summaries.length}", tags := ["tables"], nontrivial := false })
  | some "set" =>
    let i := kvNat toks "i"
    let v := (parseHashes (kv toks "v"))[0]!
    let tbl := kv toks "tbl"
    let t := d.t
    let t' : Tables := if tbl == "epochs" then { t with epochs := setAt t.epochs i v }
      else if tbl == "roots" then { t with roots := setAt t.roots i v }
      else { t with summaries := setAt t.summaries i v }
    ({ d with t := t' }, { model := "ok", tags := ["set"], nontrivial := false })
  | some "chain" =>
    let eps := mkEpochs (kvNat toks "id") (parseHashes (kv toks "recs"))
    ({ d with epochs := eps ++ d.epochs },
     { model := "roots=" ++ hexHashes (eps.map (·.root)), tags := ["chain", s!"chain-epochs-{eps.length}", "chain-via-" ++ kv toks "via"] })
  | some "accupd" =>
    -- `Accumulator.Update` accepts exactly the pre-merge block numbers
    (d, { model := if kvNat toks "num" < mergeBlock then "ok" else "err", tags := ["accupd"], nontrivial := false })
  | some "embeddedagain" =>
    -- the embedded tables, loaded again: the same for every validator of the process
    (d, { model := "same=1", monitor := if impl == "same=1" then [] else ["out_of_range_positions_rejected_by_every_validator"], tags := ["embeddedagain"] })
  | some "prove" =>
    let c := kvNat toks "chain"
    let e := kvNat toks "ep"
    let r := kvNat toks "r"
    match d.epochs.find? (fun x => x.chain == c && x.idx == e) with
    | none => (d, { model := "unknown-chain", tags := ["prove"] })
    | some ep =>
      let fast := honestPre ep r
      -- "An honestly generated proof always verifies": the implementation's own proof, folded by the model's validator
      let implProof := (parseHashes (kv (words impl) "proof")).toList
      let mon := if (words impl).head? == some "err" || impl == "panic" then ["prover_builds_proof"]
        else if Mk.fold Hsha (epochRecHash ep r) implProof (preIndex r) != ep.root then ["honest_proof_verifies"] else []
      -- once per chain the proved prover `Mk.prove` over the tree `Hp.epochTree` is run as well
      if d.mkChecked.contains c then
        (d, { model := "proof=" ++ hexHashes fast, monitor := mon, tags := ["prove"] })
      else
        let slow := proveEpoch Hsha ep.recs r
        -- (`Mk.complete`: the branch of `Mk.prove` folds to the root of `Hp.epochTree`; so this also compares that root)
        let agree := slow == some fast && Mk.fold Hsha (epochRecHash ep r) fast (preIndex r) == ep.root
        ({ d with mkChecked := c :: d.mkChecked },
         { model := if agree then "proof=" ++ hexHashes fast else "prover-models-disagree", monitor := mon,
           tags := ["prove", "prove-by-Mk.prove"] })
  | some "hwp" =>
    let c := kvNat toks "chain"
    let e := kvNat toks "ep"
    let r := kvNat toks "r"
    match d.epochs.find? (fun x => x.chain == c && x.idx == e) with
    | none => (d, { model := "unknown-chain", tags := ["hwp"] })
    | some ep =>
      let ok := (words impl).head? == some "ok"
      (d, { model := s!"ok header={kv toks "hash"} proof={hexHashes (honestPre ep r)}",
            skipCompare := !ok,
            monitor := if ok then [] else ["prover_builds_header_with_proof"],
            tags := ["hwp", if ok then "hwp-ok" else "hwp-failed"] })
  | some "batch" =>
    let roots := parseHashes (kv toks "roots")
    let layers := layersOf roots
    let sroot := (parseHashes (kv toks "sroot"))[0]!
    let v := topOf layers
    let b : Batch := { layers := layers, vroot := v, sroot := sroot, hroot := Hsha v sroot }
    ({ d with batches := b :: d.batches }, { model := s!"vroot={hash64 b.vroot} hroot={hash64 b.hroot}", tags := ["batch"] })
  | some "blk" =>
    let era := kv toks "era"
    let hash := (parseHashes (kv toks "hash"))[0]!
    let ep := (parseHashes (kv toks "proof")).toList
    let g := if era == "deneb" then gindexDeneb else gindexBellatrix
    let root := Mk.fold Hsha hash ep g
    ({ d with blks := { era := era, hash := hash, eproof := ep, root := root } :: d.blks },
     { model := "root=" ++ hash64 root, tags := ["blk", "blk-" ++ era] })
  | some "top" =>
    let number := kvNat toks "num"
    let hash := (parseHashes (kv toks "hash"))[0]!
    let proof := unhex (kv toks "proof")
    judge mode d (runTop d number hash proof) (kv toks "kind") impl
  | some op =>
    if op == "bell" || op == "cap" || op == "deneb" then
      let hash := (parseHashes (kv toks "hash"))[0]!
      let proof := unhex (kv toks "proof")
      judge mode d (runEra d op hash proof) (kv toks "kind") impl
    else (d, { model := "bad-op", tags := ["bad-op"], nontrivial := false })
  | none => (d, { model := "bad-op", tags := ["bad-op"], nontrivial := false })

end Drv.C03
