import Shisui.Trie.Validate
import Shisui.Keccak256
import Driver.Util
/-! C13 driver: state content validation (`StateValidator.ValidateContent`, state `Storage.Put`) and the decoders
    below it (`DecodeTrieNode`+`TraverseTrieNode`, `types.FullAccount`, Keccak-256), recomputed from the raw bytes
    with the Lean model and the Lean Keccak-256; the clauses of the property are evaluated on what the
    IMPLEMENTATION answered, against the ideal specification (all quirk switches off). -/
namespace Drv.C13
open Drv Tr Spv

def keccak (l : List Nat) : List Nat :=
  (Kk.keccak256 (ByteArray.mk (l.map Nat.toUInt8).toArray)).toList.map UInt8.toNat

def emptyRootHash : List Nat := unhex "56e81f171bcc55a6ff8345e692c0f86e5b48e01b996cadc001622fb5e363b421"
def emptyCodeHash : List Nat := unhex "c5d2460186f7233c927e7db2dcc703c0e500b653ca82273b7bfad8045d85a470"

/-- the environment the real code runs in: Keccak-256 and the RLP decoders -/
def envWith (h : List Nat → List Nat) : Env :=
  { hashOf := h, decodeN := decodeNode, decodeAcct := decodeAccount,
    emptyRoot := emptyRootHash, emptyCode := emptyCodeHash }

def env : Env := envWith keccak

/-- Keccak-256 with the hashes of the given byte strings computed once (every model variant and the specification
    hash the same proof nodes); the table is built by the caller so that it is evaluated once per line -/
def hashTable (bs : List (List Nat)) : List (List Nat × List Nat) := (bs.eraseDups).map fun b => (b, keccak b)

def lookupHash (table : List (List Nat × List Nat)) (b : List Nat) : List Nat :=
  match table.find? (·.1 == b) with
  | some p => p.2
  | none => keccak b

/-- nibble string: one hex digit per nibble, `-` for the empty path -/
def parseNibbles (s : String) : List Nat := if s == "-" || s == "" then [] else s.toList.map hexVal
def showNibbles (l : List Nat) : String := if l.isEmpty then "-" else String.ofList (l.map hexDigit)

/-- `h1,h2,…`; `-` is the empty list, `_` an empty node -/
def parseHexList (s : String) : List (List Nat) :=
  if s == "-" || s == "" then [] else (s.splitOn ",").map fun t => if t == "_" then [] else unhex t

def parseOracle (s : String) : List (List Nat × List Nat) :=
  if s == "-" || s == "" then [] else
  (s.splitOn ";").filterMap fun e => match e.splitOn ":" with
    | [a, b] => some (unhex a, unhex b)
    | _ => none

def showRes {α : Type} (f : α → String) : Tr.Res α → String
  | .ok a => f a
  | .err => "err"
  | .panic => "panic"

/-! ### why the IDEAL specification rejects an item (names of the property's clauses) -/

/-- first reason along the proof for which the ideal specification rejects; `none` = hash-linked from `root` along
    `path`, ending at `(last, rest)` -/
def chainReason (E : Env) (root : List Nat) (path : List Nat) (proof : List (List Nat)) : Except String (List Nat × List Nat) :=
  match proof with
  | [] => .error "missing_nodes"
  | first :: more =>
    if E.hashOf first ≠ root then .error "wrong_root" else
    let rec go (node : List Nat) (p : List Nat) : List (List Nat) → Except String (List Nat × List Nat)
      | [] => .ok (node, p)
      | next :: rest =>
        match decodeNode node with
        | none => .error "undecodable_node"
        | some n =>
          match traverseT n p with
          | .ok .ref h p' => if E.hashOf next ≠ h then .error "broken_link" else go next p' rest
          | .ok .val _ _ => .error "leaf_value_used_as_link"
          | .err => if p.isEmpty then .error "surplus_nodes" else .error "wrong_path"
          | .panic => if p.isEmpty then .error "surplus_nodes" else .error "wrong_path"
    go first path more

def nodeReason (E : Env) (root nodeHash : List Nat) (path : List Nat) (proof : List (List Nat)) : Option String :=
  match chainReason E root path proof with
  | .error r => some r
  | .ok (last, rest) =>
    if !rest.isEmpty then some "path_not_consumed"
    else if E.hashOf last ≠ nodeHash then some "final_hash_mismatch" else none

def accountReason (E : Env) (root addrHash : List Nat) (proof : List (List Nat)) : Except String Account :=
  match chainReason E root (nibblesOf addrHash) proof with
  | .error r => .error ("account_" ++ r)
  | .ok (last, rest) =>
    match decodeNode last with
    | none => .error "account_undecodable_node"
    | some n =>
      match traverseT n rest with
      | .ok .val v _ => match decodeAccount v with
        | some a => .ok a
        | none => .error "account_undecodable"
      | .ok .ref _ _ => .error "account_not_a_leaf_value"
      | _ => .error "account_wrong_path"

/-- `none` = the item satisfies the property's conditions for acceptance by `ValidateContent` -/
def itemReason (E : Env) (oracle : List Nat → Option (List Nat)) (it : Item) : Option String :=
  if !decodes it then some "undecodable_item" else
  match oracle it.blockHash with
  | none => some "unknown_block"
  | some root =>
    if it.keyType = 0x20 then nodeReason E root it.nodeHash it.path it.proof
    else match accountReason E root it.addrHash it.acctProof with
      | .error r => some r
      | .ok a =>
        if it.keyType = 0x21 then nodeReason E (fullRoot E a) it.nodeHash it.path it.proof
        else if fullCodeHash E a ≠ it.nodeHash then some "code_hash_mismatch" else none

def parseItem (toks : List String) : Item :=
  { keyType := kvNat toks "t", path := parseNibbles (kv toks "path"), nodeHash := unhex (kv toks "nh"),
    addrHash := unhex (kv toks "ah"), proof := parseHexList (kv toks "proof"),
    acctProof := parseHexList (kv toks "aproof"), code := parseBytes (kv toks "code"),
    blockHash := unhex (kv toks "bh") }

def quirkCombos : List Quirks :=
  [ideal, asImplemented,
   { panics := true, leafAsRef := false, putUnguarded := true },
   { panics := false, leafAsRef := true, putUnguarded := true }]

def lenClass (n : Nat) : String :=
  if n == 0 then "0" else if n == 1 then "1" else if n ≤ 3 then "2-3" else if n ≤ 6 then "4-6" else "7+"

/-- mode: "ideal" (all switches off), "impl" (all on), anything else = auto: the implementation must equal the model
    under SOME setting of the switches (preferring the ideal one); whatever it answers, the monitors judge it against
    the ideal specification -/
def stepVc (mode : String) (toks : List String) (impl : String) : Drv.Res :=
  let it := parseItem toks
  let table := parseOracle (kv toks "oracle")
  let oracle : List Nat → Option (List Nat) := fun bh => (table.find? (·.1 == bh)).map (·.2)
  let iv := kv (words impl) "v"
  let ip := kv (words impl) "p"
  let inn := kv (words impl) "n"
  let iid := kv (words impl) "idok"
  let table := hashTable (it.proof ++ it.acctProof ++ [it.code])
  let E := envWith (lookupHash table)
  let vOf (q : Quirks) : String := showRes (fun _ => "ok") (validateContent E q oracle it)
  let pOf (q : Quirks) : String := showRes (fun b => "ok:" ++ canon b) (put E q it)
  let cands : List Quirks := if mode == "ideal" then [ideal] else if mode == "impl" then [asImplemented] else quirkCombos
  let fallback : Quirks := if mode == "ideal" then ideal else asImplemented
  let mv := match cands.find? (fun q => vOf q == iv) with | some q => vOf q | none => vOf fallback
  let mp := match cands.find? (fun q => pOf q == ip) with | some q => pOf q | none => pOf fallback
  let stored := if mp.startsWith "ok:" then "1" else "0"
  let model := s!"v={mv} p={mp} n={stored} idok=1"
  -- monitors: the property's clauses on the implementation's own answers
  let reason := itemReason E oracle it
  let finalBytes : List Nat := if it.keyType = 0x22 then it.code else it.proof.getLastD []
  let m1 := if iv == "panic" then ["validate_rejects_with_error_not_panic"] else []
  let m2 := if iv == "ok" then (match reason with | some r => ["accepted_despite_" ++ r] | none => []) else []
  let m3 := if ip == "panic" then ["put_rejects_with_error_not_panic"] else []
  let m4 := if ip.startsWith "ok:" then
      (if ip != "ok:" ++ canon (container finalBytes) then ["stored_is_exactly_final_node_or_code"] else [])
      ++ (if E.hashOf finalBytes ≠ it.nodeHash then ["stored_hash_equals_key_hash"] else [])
      ++ (if inn != "1" || iid != "1" then ["stored_once_under_content_id"] else [])
    else (if inn != "0" then ["nothing_stored_on_reject"] else [])
  let m5 := if iv == "ok" && it.keyType != 0x22 && !ip.startsWith "ok:" && ip != "panic" then ["accepted_node_not_stored"] else []
  let tname := if it.keyType = 0x20 then "acct" else if it.keyType = 0x21 then "storage" else if it.keyType = 0x22 then "code" else "other"
  let outcome := if iv == "ok" then "accept" else if iv == "panic" then "panic" else "reject"
  { model := model, monitor := m1 ++ m2 ++ m3 ++ m4 ++ m5,
    tags := ["vc", "type-" ++ tname, "mut-" ++ kv toks "mut", outcome ++ "-" ++ tname,
             "spec-" ++ (reason.getD "linked"), "prooflen-" ++ lenClass it.proof.length,
             "put-" ++ (if ip.startsWith "ok:" then "ok" else ip)]
            ++ (if kv toks "mut" == "honest" || kv toks "mut" == "vector" then ["honest-" ++ outcome] else []),
    nontrivial := it.proof.length + it.acctProof.length ≥ 2 }

def step (mode : String) (toks : List String) (impl : String) : Drv.Res :=
  match toks.head? with
  | some "vc" => stepVc mode toks impl
  | some "tr" =>
    -- DecodeTrieNode + TraverseTrieNode on raw node bytes
    let node := unhex (kv toks "node")
    let path := parseNibbles (kv toks "path")
    let mk (panics : Bool) : String := match decodeNode node with
      | none => "decerr"
      | some n => match traverseT n path with
        | .ok _ b rest => s!"ok {hex b} {showNibbles rest}"
        | .err => "err"
        | .panic => if panics then "panic" else "err"
    let m := if mode == "ideal" then mk false else if mode == "impl" then mk true
             else if impl == mk false then mk false else mk true
    { model := m, monitor := if impl == "panic" then ["traverse_rejects_with_error_not_panic"] else [],
      tags := ["tr", "tr-" ++ ((words (mk true)).headD "?")], nontrivial := path.length > 0 }
  | some "acct" =>
    let b := unhex (kv toks "rlp")
    let m := match decodeAccount b with
      | none => "err"
      | some a => s!"ok nonce={a.nonce} bal={a.balance} root={hex (fullRoot env a)} code={hex (fullCodeHash env a)}"
    { model := m, tags := ["acct", if (decodeAccount b).isSome then "acct-ok" else "acct-err"], nontrivial := b.length > 1 }
  | some "hash" =>
    let b := parseBytes (kv toks "data")
    { model := hex (keccak b), tags := ["hash"], nontrivial := b.length > 0 }
  | some "concval" =>
    -- the sampled items again, from eight goroutines on one validator: every verdict is the one the item got alone
    { model := "diffs=0 falseaccepts=0",
      monitor := if kv (words impl) "falseaccepts" != "0" then ["accepted_only_with_hash_linked_proof_when_validated_concurrently"]
                 else if impl != "diffs=0 falseaccepts=0" then ["same_verdict_when_validated_concurrently"] else [],
      tags := ["concval"] }
  | _ => { model := "bad-op", tags := ["bad-op"], nontrivial := false }

end Drv.C13
