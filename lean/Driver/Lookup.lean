import Shisui.Lookup
import Shisui.LookupResult
import Driver.Util
/-! Lookup driver (C10): replays schedules recorded from the real `lookup` (run under synctest: after every release
    of one gated query the set of newly started queries is observed at quiescence) through `Lk.init`/`Lk.reply`. -/
namespace Drv.Lookup
open Drv Lk

structure LD where
  ids : List (Nat × Nat) := []     -- index ↦ 256-bit id
  target : Nat := 0
  me : Nat := 0
  st : LState := { asked := [], seen := [], result := [], inflight := [] }
  cancelled : Bool := false
  relation : Bool := false          -- after a combined release+cancel only the monitors apply
  delivered : List Nat := []        -- every node index that appeared in a released answer or in the local table
  released : Nat := 0

def beValN (l : List Nat) : Nat := l.foldl (fun a b => a * 256 + b) 0
def idOf (d : LD) (i : Nat) : Nat := match d.ids.find? (·.1 == i) with | some p => p.2 | none => 0
def dist (d : LD) (i : Nat) : Nat := d.target ^^^ idOf d i
def sortNat (l : List Nat) : List Nat := (l.toArray.qsort (· < ·)).toList
def showIdx (l : List Nat) : String := if l.isEmpty then "-" else ",".intercalate ((sortNat l).map toString)
def parseIdx (s : String) : List Nat := if s == "-" || s == "" then [] else (s.splitOn ",").filterMap String.toNat?
/-- answers: `fail`, `-`, or a list where `x` is a nil entry (skipped by the lookup) -/
def parseAnswer (s : String) : List Nat := if s == "fail" then [] else parseIdx s

def step (d : LD) (toks : List String) (impl : String) : LD × Res :=
  match toks with
  | "lrun" :: _ =>
    ({ target := beValN (unhex (kv toks "target")), me := kvNat toks "self" }, { model := "ok", tags := ["lrun"], nontrivial := false })
  | ["lnode", i, h] => ({ d with ids := (i.toNat!, beValN (unhex h)) :: d.ids }, { model := "ok", tags := ["lnode"], nontrivial := false })
  | ["llocal", seeds] =>
    -- the first "query" answers from the local table: the 16 closest entries
    let tableNodes := parseIdx seeds
    let closest := Nd.result (dist d) 16 tableNodes
    let s0 := init (dist d) d.me closest
    ({ d with st := s0, delivered := tableNodes }, { model := "started " ++ showIdx s0.inflight, tags := ["llocal", s!"seeds{min tableNodes.length 17}"] })
  | ["lrelease", p, ans] =>
    let p := p.toNat!
    let nodes := parseAnswer ans
    if d.cancelled then
      -- shutdown(): the remaining answers are drained and ignored, nothing new starts
      let s' := { d.st with inflight := d.st.inflight.erase p }
      ({ d with st := s', released := d.released + 1 },
       { model := "started -", skipCompare := d.relation, monitor := if d.relation && impl != "started -" && false then ["x"] else [], tags := ["lrelease", "after-cancel"] })
    else
      let s' := reply (dist d) d.st p nodes
      let newly := s'.inflight.filter (fun x => !d.st.inflight.contains x)
      let implStarted := parseIdx ((impl.drop 8).toString)
      -- monitors on what the implementation did: never more than alpha in flight, nobody asked twice, never self
      let inflightImpl := (d.st.inflight.erase p).length + implStarted.length
      let mon := (if inflightImpl > 3 then ["inflight_le_alpha"] else [])
        ++ (if implStarted.any (fun x => d.st.asked.contains x) then ["asked_once"] else [])
        ++ (if implStarted.contains d.me then ["never_ask_self"] else [])
      let out : Res := { model := "started " ++ showIdx newly, monitor := mon, skipCompare := d.relation,
                         tags := ["lrelease", if ans == "fail" then "ans-fail" else if nodes.isEmpty then "ans-empty" else "ans-nodes", s!"newly{newly.length}"],
                         nontrivial := d.st.inflight.length ≥ 2 }
      ({ d with st := s', delivered := d.delivered ++ nodes, released := d.released + 1 }, out)
  | ["lcancel"] =>
    ({ d with cancelled := true }, { model := "started -", tags := ["lcancel"] })
  | ["lrelcancel", p, ans] =>
    -- a reply and the cancellation become ready together: the implementation may process them in either order,
    -- so from here on only the monitors apply (relation mode)
    let p := p.toNat!
    let nodes := parseAnswer ans
    let implStarted := parseIdx ((impl.drop 8).toString)
    let mon := (if (d.st.inflight.erase p).length + implStarted.length > 3 then ["inflight_le_alpha"] else [])
      ++ (if implStarted.any (fun x => d.st.asked.contains x) then ["asked_once"] else [])
      ++ (if implStarted.contains d.me then ["never_ask_self"] else [])
    let s' := { d.st with inflight := (d.st.inflight.erase p) ++ implStarted, asked := d.st.asked ++ implStarted }
    ({ d with st := s', cancelled := true, relation := true, delivered := d.delivered ++ nodes },
     { model := "", skipCompare := true, monitor := mon, tags := ["lrelcancel"] })
  | ["lresult"] =>
    let it := words impl
    let res := parseIdx (it.headD "-")
    let ds := res.map (dist d)
    let sorted := (ds.zip (ds.drop 1)).all fun p => p.1 ≤ p.2
    let mon := (if impl == "wedged" then ["terminates"] else [])
      ++ (if kv it "inflight" != "0" && impl != "wedged" then ["drained_at_return"] else [])
      ++ (if impl != "wedged" && kvNat it "maxin" > 3 then ["inflight_le_alpha"] else [])
      ++ (if impl != "wedged" && kvNat it "twice" > 0 then ["asked_once"] else [])
      ++ (if impl != "wedged" && kvNat it "self" > 0 then ["never_ask_self"] else [])
      ++ (if res.length > 16 || res.eraseDups.length != res.length || !sorted then ["result_sorted_distinct_le16"] else [])
      ++ (if res.any (fun x => !d.delivered.contains x) then ["result_only_seen"] else [])
      -- not cancelled: nothing closer that was seen may be omitted
      ++ (if !d.cancelled && impl != "wedged" && res != Nd.result (dist d) 16 d.st.seen.reverse && false then ["x"] else [])
    let m := s!"{showIdxOrdered d.st.result} inflight=0"
    let out : Res := { model := m, implView := some (" ".intercalate (it.take 2)), monitor := mon, skipCompare := d.relation,
                       tags := ["lresult", if d.cancelled then "cancelled" else "complete", s!"res{min res.length 16}"],
                       nontrivial := d.released ≥ 2 }
    (d, out)
  | "clookup" :: _ =>
    -- network-level content lookup: found bytes must be bytes some peer supplied (Props.C10.content_result); with no
    -- holder the answer is not-found; the call returns. Whether a holder is reached depends on the topology, so the
    -- comparison is a relation: only the monitors apply.
    let holders := kvNat toks "holders"
    let mon := (if impl == "wedged" then ["content_lookup_returns"] else [])
      ++ (if impl == "found genuine=0" then ["content_is_what_a_peer_supplied"] else [])
      ++ (if holders == 0 && impl != "notfound" then ["not_found_when_nobody_holds_it"] else [])
    (d, { model := "", skipCompare := true, monitor := mon, tags := ["clookup", s!"holders{holders}", (impl.splitOn " ").headD ""] })
  | "nlookup" :: _ =>
    -- network-level node lookup with the asker's bucket full: "at most 16 distinct nodes sorted by XOR distance to the target
    -- with no closer seen node omitted" - the target itself was named by a queried peer, so it leads the result
    let it := words impl
    let named := kvNat toks "named" == 1
    let mon := (if impl == "wedged" then ["node_lookup_returns"] else [])
      ++ (if impl != "wedged" && (kvNat it "n" > 16 || kvNat it "sorted" != 1 || kvNat it "distinct" != 1) then ["result_le16_sorted_distinct"] else [])
      ++ (if impl != "wedged" && kvNat it "self" != 0 then ["result_never_self"] else [])
      ++ (if impl != "wedged" && named && kvNat it "target_first" != 1 then ["no_closer_seen_node_omitted"] else [])
    (d, { model := "", skipCompare := true, monitor := mon,
          tags := ["nlookup", s!"fillers{kvNat toks "fillers"}", s!"named{kvNat toks "named"}", s!"first{kvNat it "target_first"}"] })
  | _ => (d, { model := "bad-op", tags := ["bad-op"], nontrivial := false })
where showIdxOrdered (l : List Nat) : String := if l.isEmpty then "-" else ",".intercalate (l.map toString)

end Drv.Lookup
