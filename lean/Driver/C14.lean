import Shisui.Ssz.Schemas
import Shisui.Bitlist
import Driver.Util
/-! C14 driver: SSZ wire messages, ping payloads and content containers.

Lines (`<input> | <implementation output>`):

* `val <Type> v=<f1>/<f2>/…` — a value (fields in slot order) → `enc=err` | `enc=<bytes> dec=err` |
  `enc=<bytes> dec=<fields>`: the real `MarshalSSZ`, then the real `UnmarshalSSZ` into a fresh object.
* `bytes <Type> b=<bytes>` — a byte string → `dec=err` | `dec=<fields> re=err` | `dec=<fields> re=<bytes>`:
  the real `UnmarshalSSZ`, then the real `MarshalSSZ` of what was decoded.
* `bits n=<k> set=<i,j,…> | <bytes>` — go-bitfield's bit list of k verdict bits (what `Accept.ContentKeys` carries).
* `errtab code=<c> msg=<bytes> | <bytes>` — the pre-built error payload table against the struct it stands for.
* `gval <Type> inlim=<0|1> … | enc=<ok|err> dec=<ok|err> eq=<0|1>` and
  `gbytes <Type> … | dec=<ok|err> re=<ok|err> same=<0|1> prefix=<0|1>` — Go-side round trip / canonicity facts
  for the fork-tagged beacon containers (inner codec zrnt, no Lean model): only the monitors apply.

Field notation: raw bytes / byte lists as byte terms (`x<hex>`, `r<len>:<seed>`, `+`, `-`), integers in decimal,
lists as `<n>:<item>,<item>,…` on output and `<item>,<item>,…` (`-` = no items, `x` = an empty item) on input. -/
namespace Drv.C14
open Drv Wire

def parseField : Slot → String → SVal
  | .fix _, s => .fix (parseBytes s)
  | .uint n, s => .uint n s.toNat!
  | .fvec _ _, s => .fvec (parseItems s)
  | .var (.bytes _ _), s => .bytes (parseBytes s)
  | .var (.vec _ _ _), s => .vec (parseItems s)
  | .var (.dyn _ _ _ _), s => .dyn (parseItems s)
  | .var (.bits _ _), s => .bits (parseBytes s)
  | .var (.nibbles _), s => .nibbles (parseBytes s)

def parseVal (t : Ty) (s : String) : List SVal :=
  (t.slots.zip (s.splitOn "/")).map fun p => parseField p.1 p.2

def showItems (xs : List (List Nat)) : String := toString xs.length ++ ":" ++ canonItems xs

def showField : SVal → String
  | .fix b => canon b
  | .uint _ v => toString v
  | .fvec xs => showItems xs
  | .bytes b => canon b
  | .vec xs => showItems xs
  | .dyn xs => showItems xs
  | .bits b => canon b
  | .nibbles ns => canon ns

def showVal (v : List SVal) : String := "/".intercalate (v.map showField)

/-- a byte string with the length (and, when short, the content) of a canonical rendering -/
def unCanon (s : String) : List Nat :=
  match s.toList with
  | '#' :: rest => match (String.ofList rest).splitOn ":" with
    | n :: _ => List.replicate n.toNat! 0
    | [] => []
  | _ => unhex s

def unItems (s : String) : List (List Nat) :=
  match s.splitOn ":" with
  | n :: rest =>
    if n.toNat! = 0 then [] else ((":".intercalate rest).splitOn ",").map unCanon
  | [] => []

/-- the implementation's decoded value, as far as its canonical rendering tells (lengths exact; contents exact
    for strings up to 48 bytes, zeros beyond): enough for the limit predicates, which only look at lengths,
    counts and the last byte of a bit list (≤ 9 bytes) -/
def unField : Slot → String → SVal
  | .fix _, s => .fix (unCanon s)
  | .uint n, s => .uint n s.toNat!
  | .fvec _ _, s => .fvec (unItems s)
  | .var (.bytes _ _), s => .bytes (unCanon s)
  | .var (.vec _ _ _), s => .vec (unItems s)
  | .var (.dyn _ _ _ _), s => .dyn (unItems s)
  | .var (.bits _ _), s => .bits (unCanon s)
  | .var (.nibbles _), s => .nibbles (unCanon s)

def unVal (t : Ty) (s : String) : List SVal :=
  (t.slots.zip (s.splitOn "/")).map fun p => unField p.1 p.2

def lenClass (n : Nat) : String :=
  if n = 0 then "0" else if n ≤ 8 then "1-8" else if n ≤ 64 then "9-64" else if n ≤ 1024 then "65-1k"
  else if n ≤ 65536 then "1k-64k" else ">64k"

/-- which known deviation makes the as-implemented decoder accept `b` although the ideal one refuses it -/
def whyAccepted (guard : Bool) (name : String) (b : List Nat) : Option String :=
  match Schemas.byName guard name, Schemas.byName false name with
  | some t, some ti =>
    if (ti.decode ideal b).isSome then none
    else if (t.decode { zeroTail := true, trailing := false } b).isSome then some "canonical_zero_offset_empty_list"
    else if (t.decode { zeroTail := false, trailing := true } b).isSome then some "canonical_trailing_bytes_ignored"
    else none
  | _, _ => none

structure Q where
  quirks : Quirks
  guard : Bool

def asImpl : Q := { quirks := asImplemented, guard := true }
def idealQ : Q := { quirks := ideal, guard := false }

def step (q : Q) (toks : List String) (impl : String) : Res :=
  let it := words impl
  match toks with
  | "retain" :: name :: _ =>
    -- "decoding yields that value": the object decoded before the latest one, kept alive, still reads as it did
    { model := "changed=0", monitor := if impl == "changed=0" then [] else ["decoded_value_stable"], tags := ["retain", name], nontrivial := false }
  | "val" :: name :: rest =>
    match Schemas.byName q.guard name with
    | none => { model := "unknown-type", tags := ["unknown-type"], nontrivial := false }
    | some t =>
      let v := parseVal t (kv rest "v")
      let wellShaped := t.shape v
      let lim := t.inLim v
      let enc := t.encode v
      let model := match enc with
        | none => "enc=err"
        | some b => match t.decode q.quirks b with
          | none => s!"enc={canon b} dec=err"
          | some v' => s!"enc={canon b} dec={showVal v'}"
      -- clauses of the property on the implementation's own output
      let iEnc := kv it "enc"
      let iDec := kv it "dec"
      let mon : List String :=
        if !wellShaped then []
        else if lim then
          (if iEnc != "err" && iEnc != "" && iDec == showVal v then []
           else if iEnc == "-" && iDec == "err" then ["roundtrip_empty_list_rejected"]
           else ["roundtrip"])
        else (if iEnc == "err" || iDec == "err" then [] else ["overlimit_rejected"])
      { model := model, monitor := mon,
        tags := [name, "val", if lim then "val-inlimit" else "val-overlimit",
                 if enc.isNone then "enc-refused" else if lim then "roundtrip-ok" else "dec-refused"],
        nontrivial := wellShaped }
  | "bytes" :: name :: rest =>
    match Schemas.byName q.guard name with
    | none => { model := "unknown-type", tags := ["unknown-type"], nontrivial := false }
    | some t =>
      let b := parseBytes (kv rest "b")
      let dec := t.decode q.quirks b
      let model := match dec with
        | none => "dec=err"
        | some v => match t.encode v with
          | none => s!"dec={showVal v} re=err"
          | some b' => s!"dec={showVal v} re={canon b'}"
      let iDec := kv it "dec"
      let iRe := kv it "re"
      let mon : List String :=
        if iDec == "err" || iDec == "" then [] else
          (if t.inLim (unVal t iDec) then [] else ["limits_enforced"]) ++
          (if iRe == canon b then [] else [(whyAccepted q.guard name b).getD "canonical_reencoding"])
      { model := model, monitor := mon,
        tags := [name, "bytes", if dec.isSome then "dec-ok" else "dec-err", "len" ++ lenClass b.length] ++
                (match kv rest "k" with | "" => [] | k => ["kind-" ++ k]),
        nontrivial := dec.isSome || iDec != "err" }
  | "bits" :: rest =>
    -- go-bitfield's NewBitlist(n)+SetBitAt against Bl.encode; validity as an ACCEPT bit list
    let n := kvNat rest "n"
    let set := (kv rest "set").splitOn "," |>.filter (· ≠ "") |>.filter (· ≠ "-") |>.map String.toNat!
    let bits := (List.range n).map fun i => set.contains i
    let bytes := Bl.encode bits
    let valid := validBits 64 bytes
    let iBytes := unhex (it.headD "-")
    let iValid := kv it "accept"
    let mon := (if Bl.decode iBytes == some bits then [] else ["bitlist_roundtrip"]) ++
               (if (iValid == "ok") == decide (n ≤ 64) then [] else ["limits_enforced"])
    { model := s!"{hex bytes} accept={if valid then "ok" else "err"}", monitor := mon,
      tags := ["bits", if n ≤ 64 then "bits-inlimit" else "bits-overlimit"] }
  | "errtab" :: rest =>
    let code := kvNat rest "code"
    let msg := parseBytes (kv rest "msg")
    let model := match Schemas.errorPayload.encode [.uint 2 code, .bytes msg] with
      | some b => canon b
      | none => "err"
    { model := model, monitor := if impl == model then [] else ["error_table_matches_struct"], tags := ["errtab"] }
  | "appendenc" :: name :: _ =>
    -- MarshalSSZTo behind a non-empty prefix: the bytes appended are MarshalSSZ's, the prefix stays
    { model := "diffs=0", monitor := if impl == "diffs=0" then [] else ["append_encoder_agrees"], tags := [name, "appendenc"], nontrivial := false }
  | "gval" :: name :: rest =>
    let lim := kv rest "inlim" == "1"
    let ok := kv it "enc" == "ok" && kv it "dec" == "ok" && kv it "eq" == "1"
    let refused := kv it "enc" == "err" || kv it "dec" == "err"
    let mon := if kv it "enc" == "panic" || kv it "dec" == "panic" then ["no_panic"]
               else if lim then
                 (if kv it "type" == "0" then ["fork_digest_selects_type"]
                  else if kv it "slot" == "0" then ["slot_accessor_follows_digest"]
                  else if ok then [] else ["roundtrip"])
               else (if refused then [] else ["overlimit_rejected"])
    { model := "", monitor := mon, skipCompare := true,
      tags := [name, "gval", if lim then "val-inlimit" else "val-overlimit"] }
  | "gbytes" :: name :: rest =>
    let decOk := kv it "dec" == "ok"
    let mon := if kv it "dec" == "panic" || kv it "re" == "panic" then ["no_panic"]
               else if !decOk then []
               else if kv it "lim" == "0" then ["limits_enforced"]
               else if kv it "same" == "1" then []
               else if kv it "prefix" == "1" then ["canonical_trailing_bytes_ignored"]
               else ["canonical_reencoding"]
    { model := "", monitor := mon, skipCompare := true,
      tags := [name, "gbytes", if decOk then "dec-ok" else "dec-err"] ++
              (match kv rest "k" with | "" => [] | k => ["kind-" ++ k]),
      nontrivial := decOk }
  | _ => { model := "bad-op", tags := ["bad-op"], nontrivial := false }

end Drv.C14
