import Shisui.LightClient
import Shisui.LightClientSeq
import Shisui.Sha256
import Driver.Util
/-! C12 driver: light-client bootstrap / verify / apply.

The harness sends RAW data (header fields, branches, committee roots, fork version, genesis root, the signing root it
really signed) — the driver recomputes with the Lean SHA-256: header roots, the three Merkle folds with the literal
depth/index constants of the model (`Lc.finalityBranchOk` 6/41, `Lc.nextCommitteeBranchOk` 5/23,
`Lc.currentCommitteeBranchOk` 5/22), domain and signing root (`Lc.signingRoot`), and then runs `Lc.bootstrap`,
`Lc.violated` (= `Lc.verify`, `Lc.verify_eq_first_violated`) and `Lc.apply`.

BLS is trusted, as an abstraction: the aggregate signature is taken to be valid for committee `c` iff the signature
bytes are intact ∧ the signed message is the signing root of the attested header under the fork version / genesis root
handed to verification ∧ the keys `c` selects by the participation bits are exactly the keys that signed. -/
namespace Drv.C12
open Drv Lc

def bytes32 (n : Nat) : ByteArray := Id.run do
  let mut out := ByteArray.emptyWithCapacity 32
  for i in [0:32] do
    out := out.push ((n >>> (8 * (31 - i))) % 256).toUInt8
  return out

def natOfBytes (b : ByteArray) : Nat := b.foldl (fun acc x => acc * 256 + x.toNat) 0

/-- SHA-256 of the concatenation of two 32-byte values (values are big-endian numbers) -/
def H (a b : Nat) : Nat := natOfBytes (Sha.sha256 (bytes32 a ++ bytes32 b))

/-- total number parsing: a missing or malformed field reads as 0 (and then fails the comparison) -/
def kvN (toks : List String) (k : String) : Nat := ((kv toks k).toNat?).getD 0

def beVal (l : List Nat) : Nat := l.foldl (fun a b => a * 256 + b) 0
def hexVal (s : String) : Nat := beVal (unhex s)
def rootsOf (s : String) : List Nat := if s == "-" || s == "" then [] else (s.splitOn ",").map hexVal
/-- identity of a header / committee in the store summaries: first 8 bytes of its root -/
def id8 (root : Nat) : Nat := root >>> 192

structure Hdr where
  slot : Nat
  proposer : Nat
  parent : Nat
  state : Nat
  body : Nat

def parseHdr (s : String) : Option Hdr :=
  match s.splitOn ":" with
  | [a, b, c, d, e] => some { slot := (a.toNat?.getD 0), proposer := (b.toNat?.getD 0), parent := hexVal c, state := hexVal d, body := hexVal e }
  | _ => none

def Hdr.root (h : Hdr) : Nat := headerRoot H h.slot h.proposer h.parent h.state h.body

structure DS where
  st : Store := ⟨0, 0, 0, none, 0, 0⟩        -- the model's store
  finRoot : Nat := 0
  optRoot : Nat := 0
  impl : Store := ⟨0, 0, 0, none, 0, 0⟩      -- the store the implementation printed last
  implFinRoot : Nat := 0
  implOptRoot : Nat := 0

def showStore (s : Store) (finRoot optRoot : Nat) : String :=
  let nx := match s.next with | none => "0" | some c => hexNat c 16
  s!"fin={s.finSlot} opt={s.optSlot} cur={hexNat s.cur 16} next={nx} prevMax={s.prevMax} curMax={s.curMax} finroot={hexNat finRoot 16} optroot={hexNat optRoot 16}"

def parseStore (toks : List String) : Store × Nat × Nat :=
  let nx := kv toks "next"
  ({ finSlot := kvN toks "fin", optSlot := kvN toks "opt", cur := hexVal (kv toks "cur"),
     next := if nx == "0" || nx == "" then none else some (hexVal nx),
     prevMax := kvN toks "prevMax", curMax := kvN toks "curMax" },
   hexVal (kv toks "finroot"), hexVal (kv toks "optroot"))

def errName : Err → String
  | .insufficientParticipation => "insufficientParticipation"
  | .invalidTimestamp => "invalidTimestamp"
  | .invalidPeriod => "invalidPeriod"
  | .notRelevant => "notRelevant"
  | .invalidFinalityProof => "invalidFinalityProof"
  | .invalidNextSyncCommitteeProof => "invalidNextSyncCommitteeProof"
  | .invalidSignature => "invalidSignature"

/-- everything the line says about one update, after the driver's own hashing -/
structure Parsed where
  att : Hdr
  attRoot : Nat
  fin : Option Hdr
  finRoot : Nat
  finBr : Option (List Nat)
  nextRoot : Option Nat
  nextBr : Option (List Nat)
  bits : Nat
  now : Nat
  sig : Nat
  sigFacts : Bool      -- intact ∧ signed message = signing root under the fork version / genesis root given to verify
  pkcur : Bool
  pknext : Bool
  finOk : Bool
  nextOk : Bool

def parseUpd (toks : List String) : Option Parsed := do
  let att ← parseHdr (kv toks "att")
  let fin := if kv toks "fin" == "-" then none else parseHdr (kv toks "fin")
  let finBr := if kv toks "finbr" == "-" then none else some (rootsOf (kv toks "finbr"))
  let nextRoot := if kv toks "nextroot" == "-" then none else some (hexVal (kv toks "nextroot"))
  let nextBr := if kv toks "nextbr" == "-" then none else some (rootsOf (kv toks "nextbr"))
  let attRoot := att.root
  let finRoot := match fin with | some f => f.root | none => 0
  let sroot := signingRoot H attRoot (hexVal (kv toks "fv")) (hexVal (kv toks "gvr"))
  let finOk := match fin, finBr with
    | some _, some b => finalityBranchOk H finRoot b att.state
    | _, _ => false
  let nextOk := match nextRoot, nextBr with
    | some r, some b => nextCommitteeBranchOk H r b att.state
    | _, _ => false
  return { att, attRoot, fin, finRoot, finBr, nextRoot, nextBr, bits := kvN toks "bits", now := kvN toks "now", sig := kvN toks "sig",
           sigFacts := kv toks "intact" == "1" && hexVal (kv toks "signed") == sroot,
           pkcur := kv toks "pkcur" == "1", pknext := kv toks "pknext" == "1", finOk, nextOk }

/-- the abstract update of the model, relative to the store `pre` whose committees the key flags refer to -/
def Parsed.toUpdate (p : Parsed) (pre : Store) : Update :=
  { attSlot := p.att.slot, sigSlot := p.sig, fin := p.fin.map (·.slot), finBranch := p.finBr.isSome,
    nextComm := p.nextRoot.map id8, nextBranch := p.nextBr.isSome, bits := p.bits,
    finProofOk := p.finOk, nextProofOk := p.nextOk,
    sigOk := fun c => p.sigFacts && ((c == pre.cur && p.pkcur) || (pre.next == some c && p.pknext)) }

/-- clauses of the property, evaluated on what the IMPLEMENTATION did: verdict `v`, store before and after -/
def monitorsUpd (p : Parsed) (applied : Bool) (v : String) (pre : Store) (preFin preOpt : Nat)
    (post : Store) (postFin postOpt : Nat) : List String :=
  let u := p.toUpdate pre
  let ok := v == "ok"
  let sp := period pre.finSlot
  let c1 := if ok && u.bits == 0 then ["verify_participation"] else []
  let c2 := if ok && !(decide (p.now ≥ u.sigSlot ∧ u.sigSlot > u.attSlot ∧ u.attSlot ≥ finSlotOf u)) then ["verify_time_order"] else []
  let c3 := if ok && !(decide (period u.sigSlot = sp ∨ (pre.next.isSome ∧ period u.sigSlot = sp + 1))) then ["verify_period_fits_store"] else []
  let c4 := if ok && !(decide (u.attSlot > pre.finSlot ∨ (pre.next.isNone ∧ u.nextComm.isSome ∧ period u.attSlot = sp))) then ["verify_relevant"] else []
  let c5 := if ok && u.fin.isSome && u.finBranch && !u.finProofOk then ["verify_finality_branch"] else []
  let c6 := if ok && u.nextComm.isSome && u.nextBranch && !u.nextProofOk then ["verify_next_committee_branch"] else []
  let c7 := if ok && !(sigGood pre u) then ["verify_signature_of_store_committee"] else []
  let c8 := if post.finSlot < pre.finSlot then ["finalized_never_backwards"] else []
  let c9 := if post.optSlot < pre.optSlot then ["optimistic_never_backwards"] else []
  let c10 := if pre.finSlot ≤ pre.optSlot && post.optSlot < post.finSlot then ["optimistic_ge_finalized"] else []
  let changed := post.finSlot != pre.finSlot || postFin != preFin || post.cur != pre.cur || post.next != pre.next
  let c11 := if changed && u.bits * 3 < 512 * 2 then ["change_needs_two_thirds"] else []
  let c12 := if post.cur != pre.cur && pre.next != some post.cur then ["rotate_only_to_next"] else []
  let c13 := if ok && applied && post.next != pre.next &&
      !(post.next == u.nextComm && (u.nextComm.isNone || period u.attSlot == period post.finSlot)) then ["next_committee_period"] else []
  let c14 := if !applied && (post != pre || postFin != preFin || postOpt != preOpt) then ["verify_does_not_touch_store"] else []
  let c15 := if postFin != preFin && !(p.fin.isSome && postFin == id8 p.finRoot) then ["adopted_finalized_header_is_the_updates"] else []
  let c16 := if postOpt != preOpt && !(postOpt == id8 p.attRoot || (p.fin.isSome && postOpt == id8 p.finRoot)) then ["adopted_optimistic_header_is_the_updates"] else []
  let c17 := if (v.splitOn "panic").length > 1 then ["no_panic"] else []
  -- a rotation uses the stored next committee up: what was held for period sp+1 is not thereby held for sp+2 (only a
  -- next committee supplied by this very update may be stored after a rotation)
  let c18 := if post.cur != pre.cur && pre.next.isSome && post.next == pre.next && u.nextComm != pre.next then ["rotation_consumes_next_committee"] else []
  c18 ++ c1 ++ c2 ++ c3 ++ c4 ++ c5 ++ c6 ++ c7 ++ c8 ++ c9 ++ c10 ++ c11 ++ c12 ++ c13 ++ c14 ++ c15 ++ c16 ++ c17

def bitsClass (n : Nat) : String :=
  if n == 0 then "bits=0" else if n * 3 < 512 * 2 then (if n ≤ 8 then "bits=1..8" else "bits=9..341") else "bits>=342"

def step (quirk : Bool) (d : DS) (toks : List String) (impl : String) : DS × Res :=
  let it := words impl
  match toks.head? with
  | some "store" =>
    let (s, fr, orr) := parseStore toks
    ({ st := s, finRoot := fr, optRoot := orr, impl := s, implFinRoot := fr, implOptRoot := orr },
     { model := "ok", tags := ["store"], nontrivial := false })
  | some "boot" =>
    match parseHdr (kv toks "hdr") with
    | none => (d, { model := "bad-line", tags := ["bad-line"], nontrivial := false })
    | some h =>
      let beaconRoot := h.root
      let cp := hexVal (kv toks "cp")
      let commRoot := hexVal (kv toks "commroot")
      let cRoot := containerRootOf H beaconRoot (hexVal (kv toks "execroot")) (hexVal (kv toks "exbrroot"))
      let cOk := currentCommitteeBranchOk H commRoot (rootsOf (kv toks "branch")) h.state
      let b : Bootstrap := Bootstrap.mk h.slot beaconRoot cRoot (id8 commRoot) cOk (kv toks "typ" == "electra")
      let r := bootstrap quirk cp b
      let implOk := it.head? == some "ok"
      let (is, ifr, ior) := parseStore it
      let expected : Store := { finSlot := h.slot, optSlot := h.slot, cur := b.committee, next := none, prevMax := 0, curMax := 0 }
      let mon :=
        -- outside C12's statement (which is about updates): reported as a violation only against the ideal model;
        -- with the as-implemented switch on it is a coverage tag (observation recorded in DESIGN.md)
        (if !quirk && implOk && beaconRoot != cp then ["bootstrap_binds_checkpoint_root"] else []) ++
        (if implOk && !b.committeeProofOk then ["bootstrap_committee_proof"] else []) ++
        (if implOk && (is != expected || ifr != id8 beaconRoot || ior != id8 beaconRoot) then ["bootstrap_store"] else []) ++
        (if impl == "panic" then ["no_panic"] else [])
      let tags := (if quirk && implOk && beaconRoot != cp then ["obs-bootstrap-accepts-container-root"] else []) ++ ["boot", "boot-" ++ kv toks "corrupt",
                   if cp == beaconRoot then "cp=block-root" else if cp == b.containerRoot then "cp=container-root" else "cp=other"]
      match r with
      | .ok s =>
        let d' : DS := { st := s, finRoot := id8 beaconRoot, optRoot := id8 beaconRoot,
                         impl := if implOk then is else s, implFinRoot := if implOk then ifr else id8 beaconRoot,
                         implOptRoot := if implOk then ior else id8 beaconRoot }
        (d', { model := "ok " ++ showStore s (id8 beaconRoot) (id8 beaconRoot), monitor := mon, tags := tags ++ ["boot-ok"] })
      | .error e =>
        let reason := match e with
          | .invalidBootstrap => "invalid_bootstrap"
          | .headerMismatch => "header_mismatch"
          | .committeeProof => "committee_proof"
        let m := "err=rejected"
        let d' : DS := if implOk then { d with impl := is, implFinRoot := ifr, implOptRoot := ior } else d
        (d', { model := m, monitor := mon, tags := tags ++ ["boot-err-" ++ reason] })
  | some "upd" =>
    match parseUpd toks with
    | none => (d, { model := "bad-line", tags := ["bad-line"], nontrivial := false })
    | some p =>
      let applied := kv toks "apply" == "1"
      let implV := kv it "verify"
      -- model
      let u := p.toUpdate d.st
      let viol := violated d.st u p.now
      let names := viol.map errName
      let implV' := if implV == "decodeError" then "invalidSignature" else implV
      let mV := match names with
        | [] => "ok"
        | first :: _ => if names.contains implV' then implV else first
      let s1 := stageOpt (stageMax d.st u) u
      let post := if applied then apply d.st u else d.st
      let optRoot1 := if applied && s1.optSlot != d.st.optSlot then id8 p.attRoot else d.optRoot
      let finRoot' := if post.finSlot != d.st.finSlot then id8 p.finRoot else d.finRoot
      let optRoot' := if applied && post.optSlot != s1.optSlot then id8 p.finRoot else optRoot1
      -- implementation
      let (is, ifr, ior) := parseStore it
      let mon := monitorsUpd p applied implV d.impl d.implFinRoot d.implOptRoot is ifr ior
      let early := viol.any fun e => e == .insufficientParticipation || e == .invalidTimestamp || e == .invalidPeriod || e == .notRelevant
      let tags := ["upd", "kind=" ++ kv toks "kind", "via=" ++ kv toks "via", "corrupt=" ++ kv toks "corrupt", "verify=" ++ implV, bitsClass p.bits]
        ++ (if applied then ["applied"] else ["not-applied"])
        ++ (if !early then ["reached-proofs-and-signature"] else [])
        ++ (if post.finSlot != d.st.finSlot then ["fin-advanced"] else [])
        ++ (if post.optSlot != d.st.optSlot then ["opt-advanced"] else [])
        ++ (if post.cur != d.st.cur then ["committee-rotated"] else [])
        ++ (if post.next != d.st.next then (if post.next.isSome then ["next-committee-set"] else ["next-committee-cleared"]) else [])
        -- shapes no From* converter produces (a part without its branch): the code, and so the model, skips the proof
        ++ (if p.fin.isSome && p.finBr.isNone && post.finSlot != d.st.finSlot then ["generic-shape:finalized-header-adopted-without-branch"] else [])
        ++ (if p.nextRoot.isSome && p.nextBr.isNone && post.next != d.st.next && post.next.isSome then ["generic-shape:next-committee-adopted-without-branch"] else [])
        ++ (if period p.att.slot != period d.st.finSlot then ["att-other-period"] else [])
        ++ (if period p.sig != period d.st.finSlot then ["sig-other-period"] else [])
      ({ st := post, finRoot := finRoot', optRoot := optRoot', impl := is, implFinRoot := ifr, implOptRoot := ior },
       { model := s!"verify={mV} " ++ showStore post finRoot' optRoot', monitor := mon, tags := tags,
         nontrivial := !early || post != d.st })
  | _ => (d, { model := "bad-op", monitor := ["harness_line"], tags := ["bad-op"], nontrivial := false })

end Drv.C12
