import Shisui.Table.Policy2
import Driver.Util
/-! Routing-table driver (C07, C18): replays add / delete / revalidation / lookup-feedback histories recorded from the
    real `portalwire.Table` through `Tb.step2`, compares full snapshots, and evaluates the structural invariant (C07) and
    the displacement policy (C18) on the IMPLEMENTATION's snapshots. -/
namespace Drv.Table
open Drv Tb

/-- `netutil.AddrIsLAN` for IPv4: loopback, RFC1918 private, link-local -/
def isLAN (a b : Nat) : Bool :=
  a == 127 || a == 10 || (a == 172 && b ≥ 16 && b ≤ 31) || (a == 192 && b == 168) || (a == 169 && b == 254)

/-- the /24 key of every v4-mapped address (`::ffff:a.b.c.d` lies in `::/24`): a number no IPv4 /24 has -/
def mappedNet : Nat := 2 ^ 24

def parseIP (s : String) : Addr :=
  if s == "none" then { subnet := 0, host := 0, lan := false, valid := false } else
  let mapped := s.startsWith "m"
  let s := if mapped then (s.drop 1).toString else s
  match (s.splitOn ".").map String.toNat! with
  | [a, b, c, d] =>
    if mapped then
      -- `AddrIsLAN` unmaps first; the address itself and its /24 are those of the IPv6 form
      { subnet := mappedNet, host := a * 16777216 + b * 65536 + c * 256 + d, lan := isLAN a b, valid := true }
    else
      { subnet := a * 65536 + b * 256 + c, host := d, lan := isLAN a b,
        valid := !(a == 0 && b == 0 && c == 0 && d == 0) }
  | _ => { subnet := 0, host := 0, lan := false, valid := false }

def showIP (a : Addr) : String :=
  if !a.valid then "none"
  else if a.subnet == mappedNet then
    s!"m{a.host / 16777216}.{a.host / 65536 % 256}.{a.host / 256 % 256}.{a.host % 256}"
  else s!"{a.subnet / 65536}.{a.subnet / 256 % 256}.{a.subnet % 256}.{a.host}"

structure TD where
  t : Table := emptyTable 0
  selfId : Nat := 0               -- 256-bit id of the local node
  bo : List (Nat × Nat) := []     -- id index ↦ bucket computed from the log distance
  recs : List (Nat × Rec) := []   -- record index ↦ record
  subnets : List Nat := []
  slow : List Nat := []           -- oids on the slow revalidation list (entries not listed are on the fast one)
  active : List (Nat × Nat) := [] -- started revalidation requests: (id, oid)
  prev : String := ""             -- previous implementation snapshot
  initDone : Bool := true         -- the table's initial seeding phase is over (inbound contacts are added)

def boOf (d : TD) (id : Nat) : Nat := match d.bo.find? (·.1 == id) with | some p => p.2 | none => 0
def recOf (d : TD) (k : Nat) : Option Rec := (d.recs.find? (·.1 == k)).map (·.2)

def beValN (l : List Nat) : Nat := l.foldl (fun a b => a * 256 + b) 0
def bitLen (n : Nat) : Nat := if n = 0 then 0 else Nat.log2 n + 1
/-- `bucketAtDistance (enode.LogDist self id)` -/
def bucketOfIds (selfId id : Nat) : Nat := bitLen (selfId ^^^ id) - 239 - 1

def cntOf (l : List (Nat × Nat)) : Cnt := fun s => match l.find? (·.1 == s) with | some p => p.2 | none => 0

/-- rebuild the function-valued maps from their values on the finite domain in use (keeps closures shallow) -/
def compact (subnets : List Nat) (t : Table) : Table :=
  let bs := (List.range 17).map fun i =>
    let b := t.bkt i
    ({ b with ips := cntOf (subnets.map fun s => (s, b.ips s)) } : Bucket)
  let arr := bs.toArray
  let empty : Bucket := { entries := [], reps := [], ips := fun _ => 0 }
  { t with bkt := fun k => arr.getD k empty, ips := cntOf (subnets.map fun s => (s, t.ips s)) }

def showEntry (slow : List Nat) (n : TNode) : String :=
  s!"{n.r.id}/{showIP n.r.addr}/{n.r.port}/{n.r.seq}/{n.checks}/{if n.live then 1 else 0}/{if slow.contains n.oid then "S" else "F"}"
def showRep (n : TNode) : String := s!"{n.r.id}/{showIP n.r.addr}/{n.r.port}/{n.r.seq}"

def allEntries (t : Table) : List TNode := (List.range 17).flatMap fun i => (t.bkt i).entries

def sortNat (l : List Nat) : List Nat := (l.toArray.qsort (· < ·)).toList
def showIds (l : List Nat) : String := ",".intercalate ((sortNat l).map toString)

def snap (d : TD) : String :=
  let t := d.t
  let parts := (List.range 17).filterMap fun i =>
    let b := t.bkt i
    if b.entries.isEmpty && b.reps.isEmpty && d.subnets.all (fun s => b.ips s == 0) then none else
    some s!"b{i}:e={",".intercalate (b.entries.map (showEntry d.slow))};r={",".intercalate (b.reps.map showRep)};c={",".intercalate (d.subnets.map fun s => toString (b.ips s))}"
  let es := allEntries t
  let fast := (es.filter fun n => !d.slow.contains n.oid).map (·.r.id)
  let slow := (es.filter fun n => d.slow.contains n.oid).map (·.r.id)
  s!"{" ".intercalate parts} T={",".intercalate (d.subnets.map fun s => toString (t.ips s))} F={showIds fast} S={showIds slow} A={showIds (d.active.map (·.1))}"

/-- revalidation-list bookkeeping common to all operations: objects that left the entries leave the lists; an entry
    whose endpoint changed is moved to the fast list (`nodeEndpointChanged`) -/
def fixLists (before after : Table) (slow : List Nat) : List Nat :=
  let eb := allEntries before
  let ea := allEntries after
  slow.filter fun oid =>
    match ea.find? (·.oid == oid) with
    | none => false
    | some n =>
      match eb.find? (·.oid == oid) with
      | none => false       -- (re)entered the entries: starts on the fast list
      | some m => m.r.addr == n.r.addr && m.r.port == n.r.port

/-! ### parsing the implementation snapshot (for the monitors) -/

structure PNode where
  id : Nat
  ip : Addr
  port : Nat
  seq : Nat
  checks : Nat := 0
  live : Bool := false
  list : String := "-"

structure PBucket where
  idx : Nat
  entries : List PNode
  reps : List PNode
  cnt : List Nat

def parseNode (s : String) : Option PNode :=
  match s.splitOn "/" with
  | [id, ip, port, seq] => some { id := id.toNat!, ip := parseIP ip, port := port.toNat!, seq := seq.toNat! }
  | [id, ip, port, seq, ch, lv, l] =>
    some { id := id.toNat!, ip := parseIP ip, port := port.toNat!, seq := seq.toNat!, checks := ch.toNat!, live := lv == "1", list := l }
  | _ => none

def parseList (s : String) : List PNode := if s == "" then [] else (s.splitOn ",").filterMap parseNode

def parseBucket (tok : String) : Option PBucket :=
  match tok.splitOn ":" with
  | [b, rest] =>
    match rest.splitOn ";" with
    | [e, r, c] => some { idx := (b.drop 1).toNat!, entries := parseList (e.drop 2).toString, reps := parseList (r.drop 2).toString,
                          cnt := ((c.drop 2).toString.splitOn ",").map String.toNat! }
    | _ => none
  | _ => none

def parseSnap (s : String) : List PBucket := (words s).filterMap fun t => if t.startsWith "b" then parseBucket t else none
def setOf (s : String) (key : String) : List Nat :=
  let v := kv (words s) key
  if v == "" then [] else (v.splitOn ",").map String.toNat!

def countSub (l : List PNode) (s : Nat) : Nat := (l.filter fun n => n.ip.valid && !n.ip.lan && n.ip.subnet == s).length

/-- C07 on the implementation's snapshot -/
def invMonitor (d : TD) (selfIdx : Nat) (impl : String) : List String :=
  let bs := parseSnap impl
  let all := bs.flatMap fun b => b.entries ++ b.reps
  let ids := all.map (·.id)
  let subs := (all.filter fun n => n.ip.valid && !n.ip.lan).map (·.ip.subnet) |>.eraseDups
  let ents := bs.flatMap (·.entries)
  let fastS := setOf impl "F"
  let slowS := setOf impl "S"
  (if bs.any fun b => b.entries.length > 16 then ["bucket_le_16"] else [])
  ++ (if bs.any fun b => b.reps.length > 10 then ["replacements_le_10"] else [])
  ++ (if ids.eraseDups.length != ids.length then ["id_unique"] else [])
  ++ (if ids.contains selfIdx then ["self_absent"] else [])
  ++ (if bs.any fun b => (b.entries ++ b.reps).any fun n => boOf d n.id != b.idx then ["bucket_is_logdist"] else [])
  ++ (if bs.any fun b => subs.any fun s => countSub (b.entries ++ b.reps) s > 2 then ["bucket_ip_limit"] else [])
  ++ (if subs.any fun s => countSub all s > 10 then ["table_ip_limit"] else [])
  ++ (if ents.any (fun n => !(n.list == "F" && fastS.contains n.id && !slowS.contains n.id) &&
                              !(n.list == "S" && slowS.contains n.id && !fastS.contains n.id))
         || fastS.length + slowS.length != ents.length then ["reval_lists_agree"] else [])

/-- C18 on two consecutive implementation snapshots and the operation between them -/
def policyMonitor (d : TD) (toks : List String) (prevS impl : String) : List String :=
  let pb := parseSnap prevS
  let nb := parseSnap impl
  let pe := pb.flatMap (·.entries)
  let ne := nb.flatMap (·.entries)
  let op := toks.head?.getD ""
  let opId : Nat := match toks with
    | _ :: a :: _ => if op == "revalstart" then 100000 else
                     if a.startsWith "i" then ((a.drop 1).toNat?).getD 100000 else
                     if a.startsWith "r" then ((recOf d (((a.drop 1).toNat?).getD 100000)).map (·.id)).getD 100000 else 100000
    | _ => 100000
  let left := pe.filter fun n => !(ne.any (·.id == n.id))
  let m1 := if left.all (fun n =>
      n.id == opId &&
      ((op == "del") ||
       (op == "revalresp" && kv toks "responded" == "0" && n.checks / 3 == 0) ||
       (op == "track" && kv toks "success" == "0" && kvNat toks "fails" ≥ 5 &&
          ((pb.find? (·.idx == boOf d n.id)).map (·.entries.length)).getD 0 ≥ 4)))
    then [] else ["entry_leaves_only_if"]
  -- an entry that left is succeeded by a replacement when one existed
  let m2 := if left.all (fun n =>
      match pb.find? (·.idx == boOf d n.id), nb.find? (·.idx == boOf d n.id) with
      | some b0, some b1 => b0.reps.isEmpty || (b1.entries.length == b0.entries.length && b1.reps.length + 1 == b0.reps.length)
      | some b0, none => b0.reps.isEmpty
      | _, _ => true)
    then [] else ["successor_from_replacements"]
  -- records change only to a higher sequence number, or when the node itself contacted us; endpoint change unverifies
  let inboundAdd := op == "add" && kv toks "inbound" == "1"
  let m3 := if ne.all (fun n =>
      match pe.find? (·.id == n.id) with
      | none => true
      | some m =>
        let changed := !(m.ip == n.ip && m.port == n.port && m.seq == n.seq)
        !changed || ((n.seq > m.seq || (inboundAdd && n.id == opId)) && (m.ip == n.ip && m.port == n.port || !n.live)))
    then [] else ["record_change_rule"]
  -- a newcomer to a full bucket touches no entry; it can only become the first replacement
  let m4 := if op == "add" then
      match pb.find? (·.idx == boOf d opId), nb.find? (·.idx == boOf d opId) with
      | some b0, some b1 =>
        if b0.entries.length == 16 && !(b0.entries.any (·.id == opId)) then
          if b1.entries.map (·.id) == b0.entries.map (·.id) &&
             (b1.reps.map (·.id) == b0.reps.map (·.id) || b1.reps.map (·.id) == (opId :: b0.reps.map (·.id)).take 10) then []
          else ["full_bucket_newcomer"]
        else []
      | _, _ => []
    else []
  -- liveness credit
  let m5 := if op == "revalresp" then
      match pe.find? (·.id == opId), ne.find? (·.id == opId) with
      | some m, some n =>
        if kv toks "responded" == "1" then (if (n.checks == m.checks + 1 && (n.live || !(m.ip == n.ip && m.port == n.port))) || n.checks == m.checks then [] else ["credit_rule"])
        else (if n.checks == m.checks / 3 || n.checks == m.checks then [] else ["credit_rule"])
      | _, _ => []
    else []
  -- the liveness result handed to the table is the PING's result (a failed follow-up record request is not a failed check)
  let m6 := if op == "revalresp" && kv toks "reported" != "" && kv toks "reported" != kv toks "responded" then ["liveness_result_is_ping_result"] else []
  m1 ++ m2 ++ m3 ++ m4 ++ m5 ++ m6

def parseRecRef (d : TD) (s : String) : Option Rec := recOf d ((s.drop 1).toNat!)

def finishOp (d : TD) (prop : String) (toks : List String) (impl : String) (t' : Table) (slow : List Nat)
    (active : List (Nat × Nat)) (pre : String) (tags : List String) : TD × Res :=
  let t'' := compact d.subnets t'
  let slow' := fixLists d.t t'' slow
  let d' := { d with t := t'', slow := slow', active := active }
  let selfIdx := d.t.self
  -- "at most 10 replacements" is stated by both properties
  let inv := invMonitor d selfIdx impl
  let mon := (if prop == "C18" then inv.filter (· == "replacements_le_10") else inv) ++ (if prop == "C07" then [] else policyMonitor d toks d.prev impl)
  let out : Res := { model := pre ++ snap d', monitor := mon, tags := tags, nontrivial := (allEntries d.t).length ≥ 8 }
  ({ d' with prev := impl }, out)

def step (prop : String) (d : TD) (toks : List String) (impl : String) : TD × Res :=
  match toks with
  | "tabinit" :: _ =>
    let selfId := beValN (unhex (kv toks "self"))
    let subs := ((kv toks "subnets").splitOn ",").map fun s => (parseIP (s ++ ".0")).subnet
    ({ selfId := selfId, subnets := subs, t := emptyTable 0, initDone := kv toks "initdone" != "0" },
     { model := "ok", tags := ["tabinit", if kv toks "initdone" == "0" then "pre-init" else "init-done"], nontrivial := false })
  | ["initdone"] =>
    -- the end of the seeding phase changes nothing in the table
    finishOp { d with initDone := true } prop toks impl d.t d.slow d.active "" ["initdone"]
  | ["id", i, hexid, b] =>
    let idx := (i.drop 1).toNat!
    let idv := beValN (unhex hexid)
    let isSelf := idv == d.selfId
    let bucket := if isSelf then 0 else bucketOfIds d.selfId idv
    let claimed := ((b.splitOn "=").getD 1 "0").toNat!
    let d' := { d with bo := d.bo ++ [(idx, bucket)], t := if isSelf then { d.t with self := idx } else d.t }
    (d', { model := "ok", monitor := if !isSelf && claimed != bucket then ["bucket_is_logdist"] else [], tags := ["id"], nontrivial := false })
  | "rec" :: k :: i :: _ =>
    let addr := parseIP (kv toks "ip")
    let r : Rec := { id := (i.drop 1).toNat!, addr := addr, port := kvNat toks "port", seq := kvNat toks "seq" }
    let lanGo := kv toks "lan" == "1"
    ({ d with recs := ((k.drop 1).toNat!, r) :: d.recs },
     { model := "ok", monitor := if addr.valid && addr.lan != lanGo then ["lan_classification"] else [], tags := ["rec"], nontrivial := false })
  | "add" :: k :: _ =>
    match parseRecRef d k with
    | none => (d, { model := "bad-rec" })
    | some r =>
      -- during the seeding phase a node that contacted us is not added (and nothing else happens)
      if !d.initDone && kv toks "inbound" == "1" then
        finishOp d prop toks impl d.t d.slow d.active "ret=0 " ["add", "add-refused-pre-init"]
      else
      let res := handleAddNode (boOf d) d.t r (kv toks "inbound" == "1") (kv toks "live" == "1")
      finishOp d prop toks impl res.1 d.slow d.active s!"ret={if res.2 then 1 else 0} "
        ["add", if res.2 then "add-new" else if (d.t.bkt (boOf d r.id)).entries.length ≥ 16 then "add-full" else "add-other"]
  | ["loadseeds", ks] =>
    -- the seed-loading step (table construction, every refresh): each boot node goes through the add of a found node, in order
    let refs := (ks.splitOn ",").filterMap (parseRecRef d)
    let t' := refs.foldl (fun t r => (handleAddNode (boOf d) t r false false).1) d.t
    finishOp d prop toks impl t' d.slow d.active "" ["loadseeds", s!"n{refs.length}"]
  | "del" :: k :: _ =>
    match parseRecRef d k with
    | none => (d, { model := "bad-rec" })
    | some r => finishOp d prop toks impl (deleteInBucket d.t (boOf d r.id) r.id (kvNat toks "rnd")) d.slow d.active "" ["del"]
  | ["revalstart", ids] =>
    let started := ((ids.splitOn ",").drop 1).map fun s => (s.drop 1).toNat!
    let act := started.foldl (fun (acc : Option (List (Nat × Nat))) id =>
      match acc with
      | none => none
      | some a =>
        match (d.t.bkt (boOf d id)).entries.find? (·.r.id == id) with
        | none => none                       -- a request for a node that is not an entry
        | some n => if a.any (·.1 == id) then none else some ((id, n.oid) :: a)) (some d.active)
    match act with
    | none => (d, { model := "bad-start" })
    | some a => finishOp d prop toks impl d.t d.slow a "" ["revalstart", s!"started{started.length}"]
  | "revalresp" :: i :: _ =>
    let id := (i.drop 1).toNat!
    match d.active.find? (·.1 == id) with
    | none => (d, { model := "bad-resp" })
    | some (_, oid) =>
      let active := d.active.filter (·.1 != id)
      let nr := kv toks "newrec"
      let applies := ((d.t.bkt (boOf d id)).entries.find? (·.r.id == id)).any (·.oid == oid)
      if kv toks "responded" == "0" then
        let t' := revalFail d.t (boOf d id) id oid (kvNat toks "rnd")
        -- a node that keeps some credit goes (back) to the fast list
        finishOp d prop toks impl t' (d.slow.filter (· != oid)) active "" ["revalresp", if applies then "reval-fail" else "reval-stale"]
      else
        let newRec := if nr == "-" then none else parseRecRef d nr
        let t' := revalOk d.t (boOf d id) id oid newRec
        -- it moves to the slow list unless its endpoint changed (handled by fixLists)
        finishOp d prop toks impl t' (if applies then oid :: d.slow.filter (· != oid) else d.slow) active ""
          ["revalresp", if applies then (if newRec.isSome then "reval-ok-newrec" else "reval-ok") else "reval-stale"]
  | "track" :: k :: _ =>
    match parseRecRef d k with
    | none => (d, { model := "bad-rec" })
    | some r =>
      let found := (((kv toks "found").splitOn ",").drop 1).filterMap (parseRecRef d)
      let fails := kvNat toks "fails"
      let t' := trackRequest (boOf d) d.t r.id fails (kvNat toks "rnd") found
      finishOp d prop toks impl t' d.slow d.active "" ["track", if fails ≥ 5 then "track-fails5" else "track-other"]
  | "tsnap" :: _ =>
    -- concurrent drive of the running loop: the order of application is unknown, only the invariant is judged.
    -- The revalidation-list clause is judged on drained snapshots only (a running snapshot can fall between the two
    -- updates of one handler, which take the table mutex separately).
    let selfIdx := d.t.self
    let mon := (invMonitor d selfIdx impl).filter fun c => c != "reval_lists_agree" || kv toks "phase" == "drained"
    (d, { model := "", skipCompare := true, monitor := if prop == "C18" then mon.filter (· == "replacements_le_10") else mon, tags := ["tsnap", kv toks "phase"] })
  | "tabpanic" :: _ => (d, { model := "no-panic", monitor := ["table_operation_panics"], tags := ["tabpanic"] })
  | _ => (d, { model := "bad-op", tags := ["bad-op"], nontrivial := false })

end Drv.Table
