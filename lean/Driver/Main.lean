import Std.Data.HashSet
import Driver.Util
import Driver.C15
import Driver.Store
import Driver.C19
import Driver.Table
import Driver.Lookup
import Driver.C11
import Driver.C08
import Driver.C09
import Driver.C20
import Driver.C16
import Driver.C12
import Driver.Crash
import Driver.C03
import Driver.C02
import Driver.C13
import Driver.C14
import Driver.C01
/-! Line-protocol driver. Usage: `drv <property>`; stdin: `op args… | impl-output`;
    stdout: one `MISMATCH`/`MONITOR` line per problem and a final `DONE` summary with coverage tags. -/
open Drv

structure DAcc where
  lines : Nat := 0
  compared : Nat := 0
  mismatches : Nat := 0
  monitorFails : Nat := 0
  nontrivial : Nat := 0
  seen : Std.HashSet UInt64 := {}
  tags : List (String × Nat) := []

def bump (tags : List (String × Nat)) (t : String) : List (String × Nat) :=
  match tags.find? (·.1 == t) with
  | some _ => tags.map fun p => if p.1 == t then (p.1, p.2 + 1) else p
  | none => tags ++ [(t, 1)]

def splitLine (line : String) : String × String :=
  match line.splitOn " | " with
  | [a] => (a, "")
  | a :: rest => (a, " | ".intercalate rest)
  | [] => ("", "")

/-- stateless properties: one function from (tokens, impl output) to a result -/
partial def loopStateless (step : List String → String → Res) (h : IO.FS.Stream) (acc : DAcc) : IO DAcc := do
  let line ← h.getLine
  if line.isEmpty then return acc
  let line := (line.dropEndWhile (fun c => c == '\n' || c == '\r')).toString
  if line.isEmpty || line.startsWith "#" then loopStateless step h acc else
  let (inp, impl) := splitLine line
  let r := step (words inp) impl
  let n := acc.lines + 1
  let mut acc := { acc with lines := n, tags := r.tags.foldl bump acc.tags,
                            nontrivial := acc.nontrivial + (if r.nontrivial then 1 else 0),
                            seen := if r.nontrivial then acc.seen.insert (hash inp) else acc.seen }
  if !r.skipCompare then
    acc := { acc with compared := acc.compared + 1 }
    if r.model != (r.implView.getD impl) then
      acc := { acc with mismatches := acc.mismatches + 1 }
      IO.println s!"MISMATCH line={n} model=[{r.model}] impl=[{impl}] input=[{inp}]"
  for m in r.monitor do
    acc := { acc with monitorFails := acc.monitorFails + 1 }
    IO.println s!"MONITOR line={n} clause={m} impl=[{impl}] input=[{inp}]"
  loopStateless step h acc

/-- stateful properties: the model state is threaded through the lines -/
partial def loopStateful {σ : Type} (step : σ → List String → String → σ × Res) (h : IO.FS.Stream) (st : σ) (acc : DAcc) : IO DAcc := do
  let line ← h.getLine
  if line.isEmpty then return acc
  let line := (line.dropEndWhile (fun c => c == '\n' || c == '\r')).toString
  if line.isEmpty || line.startsWith "#" then loopStateful step h st acc else
  let (inp, impl) := splitLine line
  let (st', r) := step st (words inp) impl
  let n := acc.lines + 1
  let mut acc := { acc with lines := n, tags := r.tags.foldl bump acc.tags,
                            nontrivial := acc.nontrivial + (if r.nontrivial then 1 else 0),
                            seen := if r.nontrivial then acc.seen.insert (hash inp) else acc.seen }
  if !r.skipCompare then
    acc := { acc with compared := acc.compared + 1 }
    if r.model != (r.implView.getD impl) then
      acc := { acc with mismatches := acc.mismatches + 1 }
      IO.println s!"MISMATCH line={n} model=[{r.model}] impl=[{impl}] input=[{inp}]"
  for m in r.monitor do
    acc := { acc with monitorFails := acc.monitorFails + 1 }
    IO.println s!"MONITOR line={n} clause={m} impl=[{impl}] input=[{inp}]"
  loopStateful step h st' acc

def finish (acc : DAcc) : IO Unit := do
  let tags := " ".intercalate (acc.tags.map fun p => s!"{p.1}={p.2}")
  IO.println s!"DONE lines={acc.lines} compared={acc.compared} mismatches={acc.mismatches} monitor_fails={acc.monitorFails} nontrivial={acc.nontrivial} distinct_nontrivial={acc.seen.size} tags: {tags}"

def main (args : List String) : IO UInt32 := do
  let h ← IO.getStdin
  match args with
  | ["C15"] => finish (← loopStateless Drv.C15.step h {})
  | ["C19"] => finish (← loopStateless (Drv.C19.step true) h {})
  | ["C19", "ideal"] => finish (← loopStateless (Drv.C19.step false) h {})
  | ["table", prop] => finish (← loopStateful (Drv.Table.step prop) h {} {})
  | ["lookup"] => finish (← loopStateful Drv.Lookup.step h {} {})
  | ["C11"] => finish (← loopStateless Drv.C11.step h {})
  | ["C08"] => finish (← loopStateless Drv.C08.step h {})
  | ["C09"] => finish (← loopStateless (Drv.C09.step false) h {})
  | ["C09", "quirk"] => finish (← loopStateless (Drv.C09.step true) h {})
  | ["C20"] => finish (← loopStateful Drv.C20.step h {} {})
  | ["C16"] => finish (← loopStateless Drv.C16.step h {})
  | ["C12"] => finish (← loopStateful (Drv.C12.step true) h {} {})
  | ["C12", "ideal"] => finish (← loopStateful (Drv.C12.step false) h {} {})
  | ["crash"] => finish (← loopStateful Drv.Crash.step h {} {})
  | "C03" :: mode => finish (← loopStateful (Drv.C03.step (mode.headD "auto")) h {} {})
  | "C02" :: qs => finish (← loopStateless (Drv.C02.step (Drv.C02.parseQuirks (",".intercalate qs))) h {})
  | "C13" :: mode => finish (← loopStateless (Drv.C13.step (mode.headD "auto")) h {})
  | ["C14"] => finish (← loopStateless (Drv.C14.step Drv.C14.asImpl) h {})
  | ["C14", "noguard"] => finish (← loopStateless (Drv.C14.step { Drv.C14.asImpl with guard := false }) h {})
  | ["C14", "ideal"] => finish (← loopStateless (Drv.C14.step Drv.C14.idealQ) h {})
  | "C01" :: qs => finish (← loopStateless (Drv.C01.step (Drv.C01.quirksOf qs)) h {})
  | ["inrange"] => finish (← loopStateless Drv.Store.inRangeStep h {})
  | ["store", prop] => finish (← loopStateful (Drv.Store.step prop) h {} {})
  | _ => IO.eprintln "usage: drv <property>"; return 2
  return 0
