import Shisui.Store.Exec
import Shisui.Store.Concurrent
import Shisui.FindContent
import Driver.Util
/-! Store driver (C04, C05, C06, C17): replays put/get/reopen histories through `StX` and evaluates the
    property clauses on the IMPLEMENTATION's observations. -/
namespace Drv.Store
open Drv StX

def beVal (l : List Nat) : Nat := l.foldl (fun a b => a * 256 + b) 0
def leVal (l : List Nat) : Nat := beVal l.reverse

def xorKey (id node : List Nat) : List Nat :=
  -- `xor()`: ids of another length than the node id are zero-padded / truncated to 32 bytes
  let padded := if id.length = node.length then id else (id ++ List.replicate 32 0).take 32
  List.zipWith (fun a b => a ^^^ b) padded node

structure DS where
  st : Store := StX.empty 0
  le : Bool := true
  node : List Nat := []
  everPut : List (Nat × String) := []   -- (key, len:digest) of every accepted put, newest first
  prevRadius : Nat := maxRadius
  prevN : Option Nat := none            -- number of items the implementation reported last
  prevPersisted : Option Nat := none    -- usage figure on disk the implementation reported last
  refusedSince : Nat := 0               -- refused puts since the last accepted one
  opened : Bool := false

def hex64 (n : Nat) : String := hexNat n 64

def snap (s : Store) : String :=
  let maxKept := match s.items.getLast? with | some e => hex64 e.be | none => "-"
  s!"n={s.items.length} held={held s.items} persisted={s.tracked} radius={hex64 s.radius} maxkept={maxKept}"

/-- the 32-byte value read in the other byte order -/
def swap32 (v : Nat) : Nat := (List.range 32).foldl (fun acc i => acc * 256 + (v / 256 ^ i) % 256) 0

/-- clauses of C05/C06 evaluated on what the implementation reported -/
def monitors (cap : Nat) (preHeld : Nat) (itemSz : Nat) (allSmall : Bool) (prevRadius : Nat) (impl : List String)
    (keyBE : Nat) (accepted : Bool) (keyLE : Nat := 0) : List String :=
  let n := kvNat impl "n"
  let heldI := kvNat impl "held"
  let pers := kvNat impl "persisted"
  let radius := beVal (unhex (kv impl "radius"))
  let maxKept := kv impl "maxkept"
  let m1 := if pers < heldI then ["counter_ge_held"] else []
  let m2 := if allSmall && heldI > cap then ["held_le_cap"] else []
  let m3 := if accepted && preHeld + itemSz > cap && !(n == 0 || preHeld + itemSz - heldI ≥ cap / 20) then ["prune_frees_5pct"] else []
  let m4 := if maxKept != "-" && beVal (unhex maxKept) > radius then ["retained_within_radius"] else []
  let m5 := if radius > prevRadius then ["radius_antitone"] else []
  -- radii made of one repeated byte read the same in both byte orders: growth between two puts is then a violation whatever
  -- the byte order (not covered by the recorded little-endian finding)
  let rep (v : Nat) : Bool := v == (v % 256) * ((2 ^ 256 - 1) / 255)
  let m7 := if radius > prevRadius && rep radius && rep prevRadius then ["radius_only_shrinks_in_both_byte_orders"] else []
  let m6 := if accepted && !(keyBE < prevRadius) then ["refusal_exact"] else
            if !accepted && keyBE < prevRadius then ["refusal_exact"] else []
  -- refused although the distance is below the radius whichever way the 32 bytes are read (not the recorded finding)
  let m8 := if !accepted && prevRadius == 2 ^ 256 - 1 && keyBE < prevRadius && keyLE < swap32 prevRadius then ["refused_although_below_radius_in_both_byte_orders"] else []
  m1 ++ m2 ++ m3 ++ m4 ++ m5 ++ m6 ++ m7 ++ m8

/-- fields of a snapshot that matter to each property; clauses each property owns -/
def keysOf (prop : String) : List String :=
  if prop == "C04" then ["n"]
  else if prop == "C05" then ["n", "held", "persisted", "maxkept", "dropped", "mindropped"]
  else if prop == "C06" then ["radius", "maxkept"]
  else if prop == "C17" then ["n", "persisted", "radius", "maxkept"]
  else ["n", "held", "persisted", "radius", "maxkept", "dropped", "mindropped"]

def clausesOf (prop : String) : List String :=
  if prop == "C04" then ["get_only_put", "get_returns_stored_until_pruned", "returned_bytes_stable", "put_error", "pruned_item_stays_pruned", "refused_put_changes_nothing", "counter_ge_held_inside_pruning_put", "refused_although_below_radius_in_both_byte_orders"]
  else if prop == "C05" then ["counter_ge_held", "held_le_cap", "prune_frees_5pct", "farthest_first", "put_error", "counter_ge_held_concurrent",
    "counter_ge_held_put_during_prune_sync", "put_returns", "counter_ge_held_inside_pruning_put"]
  else if prop == "C06" then ["retained_within_radius", "radius_antitone", "refusal_exact", "radius_changes_only_by_own_prune",
    "radius_only_shrinks_in_both_byte_orders", "pruned_item_stays_pruned", "refused_although_below_radius_in_both_byte_orders"]
  else if prop == "C17" then ["open_radius_max_when_empty", "counter_ge_held", "open_radius_max_unless_over_95pct"]
  else ["get_only_put", "get_returns_stored_until_pruned", "returned_bytes_stable", "put_error", "counter_ge_held", "held_le_cap", "prune_frees_5pct",
        "farthest_first", "retained_within_radius", "radius_antitone", "refusal_exact", "open_radius_max_when_empty", "radius_changes_only_by_own_prune",
        "counter_ge_held_put_during_prune_sync", "put_returns", "radius_only_shrinks_in_both_byte_orders", "open_radius_max_unless_over_95pct", "pruned_item_stays_pruned", "refused_put_changes_nothing"]

def stepAll (d : DS) (toks : List String) (impl : String) : DS × Res :=
  let it := words impl
  match toks.head? with
  | some "open" =>
    let cap := kvNat toks "cap"
    let le := kv toks "endian" != "be"
    let d' : DS := { st := StX.empty cap, le := le, node := unhex (kv toks "node"), opened := true, prevN := some (kvNat it "n"),
                       prevPersisted := if (kv it "persisted") != "" then some (kvNat it "persisted") else none }
    (d', { model := "ok " ++ snap d'.st, tags := ["open"], nontrivial := false })
  | some "put" =>
    let id := unhex (kv toks "id")
    let key := xorKey id d.node
    let len := kvNat toks "len"
    let x : Item := { be := beVal key, le := leVal key, len := len, val := if kv toks "zeros" == "1" then 0 else fnvGen len (kvNat toks "seed") }
    let preHeld := held d.st.items
    let r := put d.le d.st x
    let res := match r.2 with | .ok => "ok" | .insufficientRadius => "insufficient_radius"
    let accepted := it.head? == some "ok"
    let allSmall := kv toks "small" == "1"
    let dropped := (d.st.items.length + (if (get d.st x.be).isSome then 0 else 1)) - r.1.items.length
    let mon := if it.head? == some "ok" || it.head? == some "insufficient_radius" then
        monitors d.st.cap preHeld (32 + len) allSmall d.prevRadius it x.be accepted x.le else ["put_error"]
    -- farthest-first, on the implementation's own report: every dropped key is beyond every kept key
    let mind := kv it "mindropped"
    let maxk := kv it "maxkept"
    let ff := if mind != "-" && mind != "" && maxk != "-" && beVal (unhex mind) ≤ beVal (unhex maxk) then ["farthest_first"] else []
    -- the set of retained items grows only by an accepted put, by one: an item that was pruned does not come back
    let back := match d.prevN with
      | some p => if (kv it "n") != "" && kvNat it "n" > p + (if accepted then 1 else 0) then ["pruned_item_stays_pruned"] else []
      | none => []
    let minDropped := if r.2 == .ok && dropped > 0 then
        match ((ins x d.st.items).drop r.1.items.length).head? with | some e => hex64 e.be | none => "-"
      else "-"
    -- "a refused put changes nothing observable": an accepted put that prunes nothing adds exactly its own size to the usage
    -- figure on disk; if it does not, and refused puts lie between it and the previous accepted one, they left a trace
    let refusedTrace := match d.prevPersisted with
      | some p => if accepted && kv it "dropped" == "0" && d.refusedSince > 0 && (kv it "persisted") != "" &&
                     kvNat it "persisted" != p + 32 + len then ["refused_put_changes_nothing"] else []
      | none => []
    let d' := { d with st := r.1, everPut := if r.2 == .ok then (x.be, s!"val={x.len}:{hexNat x.val.toNat 16}") :: d.everPut else d.everPut,
                       prevRadius := beVal (unhex (kv it "radius")),
                       prevN := if (kv it "n") != "" then some (kvNat it "n") else d.prevN,
                       prevPersisted := if (kv it "persisted") != "" then some (kvNat it "persisted") else d.prevPersisted,
                       refusedSince := if accepted then 0 else if it.head? == some "insufficient_radius" then d.refusedSince + 1 else d.refusedSince }
    (d', { model := s!"{res} {snap r.1} dropped={if r.2 == .ok then dropped else 0} mindropped={minDropped}",
           monitor := mon ++ ff ++ back ++ refusedTrace,
           tags := ["put", res] ++ (if dropped > 0 && r.2 == .ok then ["put-pruned"] else []) ++ (if r.1.radius < d.st.radius then ["radius-shrunk"] else [])
                   ++ (if (get d.st x.be).isSome && r.2 == .ok then ["overwrite"] else []),
           nontrivial := d.st.items.length > 0 })
  | some "get" =>
    let key := xorKey (unhex (kv toks "id")) d.node
    let be := beVal key
    let m := match get d.st be with
      | some e => s!"val={e.len}:{hexNat e.val.toNat 16}"
      | none => "notfound"
    -- C04: whatever the implementation returns must be the latest value put under this id
    let latest := d.everPut.find? (·.1 == be)
    let bad := match it with
      | ["notfound"] => false
      | [v] => match latest with
        | some p => v != p.2
        | none => true
      | _ => true
    -- "until that item is pruned": an item that is in the database must be returned
    let hidden := impl == "notfound" && kv toks "present" == "1"
    (d, { model := m, monitor := (if bad then ["get_only_put"] else []) ++ (if hidden then ["get_returns_stored_until_pruned"] else []),
          tags := ["get", if (get d.st be).isSome then "get-hit" else "get-miss"] })
  | some "retained" =>
    -- the harness re-compares every slice ever returned by Get with the bytes it had when returned
    (d, { model := "changed=0", monitor := if impl == "changed=0" then [] else ["returned_bytes_stable"], tags := ["retained"] })
  | some "reopen" =>
    let s' := reopen d.le d.st.items d.st.tracked d.st.cap
    let radius := beVal (unhex (kv it "radius"))
    let maxKept := kv it "maxkept"
    let mon := (if kvNat it "persisted" < kvNat it "held" then ["counter_ge_held"] else [])
      ++ (if maxKept != "-" && beVal (unhex maxKept) > radius then ["retained_within_radius"] else [])
      ++ (if maxKept == "-" && radius != maxRadius then ["open_radius_max_when_empty"] else [])
      -- "is the maximum otherwise": at 95 % of the capacity or below the reopened store advertises the maximum radius
      ++ (if kvNat it "persisted" * 20 ≤ d.st.cap * 19 && radius != maxRadius then ["open_radius_max_unless_over_95pct"] else [])
    let back := match d.prevN with
      | some p => if (kv it "n") != "" && kvNat it "n" > p then ["pruned_item_stays_pruned"] else []
      | none => []
    ({ d with st := s', prevRadius := radius, prevN := if (kv it "n") != "" then some (kvNat it "n") else d.prevN,
              prevPersisted := if (kv it "persisted") != "" then some (kvNat it "persisted") else d.prevPersisted, refusedSince := 0 },
     { model := "ok " ++ snap s', monitor := mon ++ back, tags := ["reopen"] })
  | some "twostore" =>
    -- a second store in the same process that never pruned keeps the maximum radius whatever the first one does, and a
    -- store opened afterwards starts at the maximum
    let mx := hex64 maxRadius
    let m := s!"same=1 radiusB={mx} lateput=ok fresh={mx}"
    (d, { model := m, monitor := if impl == m then [] else ["radius_changes_only_by_own_prune"], tags := ["twostore", "prunedA" ++ kv toks "prunedA"] })
  | some "concprune" =>
    -- put B runs while put A waits in the fsync of its pruning batch: the counter must still cover what is held
    let mon := (if kvNat it "persisted" < kvNat it "held" then
                  [if kv toks "phase" == "mid" then "counter_ge_held_inside_pruning_put" else "counter_ge_held_put_during_prune_sync"] else [])
      ++ (if it.head? == some "a-stuck" then ["put_returns"] else [])
    (d, { model := "-", monitor := mon, tags := ["concprune", it.headD "?"], skipCompare := true })
  | some "conc" =>
    -- two puts as the atomic steps the code has; the schedule is an input (forced through the yield hook)
    let ths : List Conc.Thread := [{ key := 1, len := kvNat toks "lenA", snap := none }, { key := 2, len := kvNat toks "lenB", snap := none }]
    let evs : List Conc.Ev := if kv toks "schedule" == "overtake" then [.add 0, .add 1, .commit 1, .commit 0]
                              else [.add 0, .commit 0, .add 1, .commit 1]
    let r := Conc.run evs ths
    let mon := if kvNat it "persisted" < kvNat it "held" then ["counter_ge_held_concurrent"] else []
    (d, { model := s!"persisted={r.persisted} held={Conc.held r.items}", monitor := mon, tags := ["conc", kv toks "schedule"] })
  | _ => (d, { model := "bad-op", tags := ["bad-op"], nontrivial := false })

/-- C06: the in-range test (stateless) -/
def inRangeStep (toks : List String) (impl : String) : Res :=
  let node := beVal (unhex (kv toks "node"))
  let radius := beVal (unhex (kv toks "radius"))
  let id := beVal (unhex (kv toks "id"))
  let m := Fc.inRange false node radius id
  let d := node ^^^ id
  { model := toString m, monitor := if impl == toString (decide (d < radius)) then [] else ["inrange_is_xor_lt_radius"],
    tags := ["inrange", if m then "in" else "out", if radius < 600 then "radius-small" else if radius == maxRadius then "radius-max" else "radius-mid",
             if d + 2 ≥ radius && radius + 2 ≥ d then "boundary" else "far"] }

def step (prop : String) (d : DS) (toks : List String) (impl : String) : DS × Res :=
  let r := stepAll d toks impl
  let op := toks.head?.getD ""
  let res := r.2
  let res := { res with monitor := res.monitor.filter (clausesOf prop).contains }
  if op == "put" || op == "reopen" || op == "open" then
    (r.1, { res with model := project (keysOf prop) res.model, implView := some (project (keysOf prop) impl) })
  else if (op == "get" || op == "retained") && prop != "C04" && prop != "all" then
    (r.1, { res with skipCompare := true })
  else if op == "twostore" && prop != "C06" && prop != "all" then
    (r.1, { res with skipCompare := true })
  else if op == "conc" && prop != "C05" && prop != "all" then
    (r.1, { res with skipCompare := true })
  else (r.1, res)

end Drv.Store
